//! Engine-independent part of the simulator: run context, oracle bookkeeping, panic capture,
//! seeded parallel batches, trace minimisation, replay files, known findings.

use crate::json::J;
use crate::rng::{splitmix, Rng};
use std::cell::{Cell, RefCell};
use std::collections::HashSet;
use std::panic::{catch_unwind, AssertUnwindSafe};
use std::sync::atomic::{AtomicU64, Ordering};
use std::sync::{Mutex, OnceLock};

pub const NPROP: usize = 21; // index 1..=20 used

pub fn pid(p: u8) -> String {
    format!("C{:02}", p)
}
pub fn parse_pid(s: &str) -> Option<u8> {
    let n: u8 = s.strip_prefix('C')?.parse().ok()?;
    if (1..=20).contains(&n) {
        Some(n)
    } else {
        None
    }
}

#[derive(Clone, Copy, PartialEq, Eq, Debug)]
pub enum Tier {
    Quick,
    Thorough,
}

#[derive(Clone, Debug)]
pub struct Profile {
    /// property whose check is running: decides the workload mix and which violations are reported
    pub focus: u8,
    pub tier: Tier,
    /// C17 chaos profile: legal extremes, reduced oracles
    pub chaos: bool,
}

#[derive(Clone, Debug)]
pub struct Violation {
    pub prop: u8,
    pub oracle: &'static str,
    pub ev: usize,
    pub detail: String,
}

#[derive(Clone, Debug)]
pub struct Known {
    pub prop: u8,
    pub oracle: String,
    pub class: String,
    pub open: bool,
    pub what: String,
}

static KNOWN: OnceLock<Vec<Known>> = OnceLock::new();

pub fn load_known(path: &str) {
    let mut v = Vec::new();
    if let Ok(s) = std::fs::read_to_string(path) {
        match J::parse(&s) {
            Ok(j) => {
                if let Some(arr) = j.get("findings").and_then(|a| a.as_arr()) {
                    for e in arr {
                        let prop = e.get("property").and_then(|x| x.as_str()).and_then(parse_pid).unwrap_or(0);
                        let status = e.get("status").and_then(|x| x.as_str()).unwrap_or("");
                        v.push(Known {
                            prop,
                            oracle: e.get("oracle").and_then(|x| x.as_str()).unwrap_or("").to_string(),
                            class: e.get("class").and_then(|x| x.as_str()).unwrap_or("").to_string(),
                            open: status == "open",
                            what: e.get("what").and_then(|x| x.as_str()).unwrap_or("").to_string(),
                        });
                    }
                }
            }
            Err(e) => {
                eprintln!("HARNESS-ERROR: cannot parse {}: {}", path, e);
                std::process::exit(2);
            }
        }
    }
    let _ = KNOWN.set(v);
}

pub fn known() -> &'static [Known] {
    KNOWN.get().map(|v| v.as_slice()).unwrap_or(&[])
}

// ---------------------------------------------------------------------------------------------
// panic capture: a panic inside a call into the code under test is a C17 violation,
// a panic anywhere else is a harness error (exit 2).

thread_local! {
    pub static IN_REAL: Cell<bool> = const { Cell::new(false) };
    static PANIC_MSG: RefCell<String> = const { RefCell::new(String::new()) };
    static HEART: Cell<usize> = const { Cell::new(usize::MAX) };
}

#[macro_export]
macro_rules! real {
    ($e:expr) => {{
        $crate::core::IN_REAL.with(|f| f.set(true));
        let r = $e;
        $crate::core::IN_REAL.with(|f| f.set(false));
        r
    }};
}

pub fn install_panic_hook() {
    std::panic::set_hook(Box::new(|info| {
        let msg = if let Some(s) = info.payload().downcast_ref::<&str>() {
            s.to_string()
        } else if let Some(s) = info.payload().downcast_ref::<String>() {
            s.clone()
        } else {
            "panic".to_string()
        };
        let loc = info.location().map(|l| format!("{}:{}", l.file(), l.line())).unwrap_or_default();
        PANIC_MSG.with(|m| *m.borrow_mut() = format!("{} at {}", msg, loc));
    }));
}

// ---------------------------------------------------------------------------------------------
// hang watchdog: every worker bumps its heartbeat before each event; a watchdog thread reports a
// worker whose heartbeat has not moved for WATCHDOG_SECS of wall time.  This is the only wall-clock
// element of a check and it can only fire on a genuine hang (one event is at most a few 10^7 ticks).

pub const MAX_WORKERS: usize = 64;
pub const WATCHDOG_SECS: u64 = 60;
#[allow(clippy::declare_interior_mutable_const)]
const AZ: AtomicU64 = AtomicU64::new(0);
pub static HEARTS: [AtomicU64; MAX_WORKERS] = [AZ; MAX_WORKERS];
/// what the worker is doing, for the hang report: (engine, focus, seed, run)
pub static INFLIGHT: Mutex<Vec<Option<(String, u8, u64, u64, bool, Tier)>>> = Mutex::new(Vec::new());

pub fn set_worker_slot(slot: usize) {
    HEART.with(|h| h.set(slot));
}
#[inline]
pub fn heartbeat() {
    HEART.with(|h| {
        let s = h.get();
        if s < MAX_WORKERS {
            HEARTS[s].fetch_add(1, Ordering::Relaxed);
        }
    });
}

// ---------------------------------------------------------------------------------------------

pub struct Ctx {
    pub focus: u8,
    pub chaos: bool,
    /// bitmask of properties whose oracles are switched off for the rest of this trace
    pub off: u32,
    pub evals: [u64; NPROP],
    pub viol: Vec<Violation>,
    pub known_count: Vec<u64>,
    pub known_first: Vec<Option<(usize, String)>>,
    pub probes: Vec<u64>,
    pub trans: Vec<u32>,
    /// engine-defined coverage items (e.g. delivered (controller, value) pairs); distinct ones are counted over the batch
    pub cover: Vec<u32>,
    pub cover_cap: usize,
    pub fp: u64,
    pub ev_idx: usize,
    pub steps: u64,
    pub sim_ns: u64,
    pub faults: u64,
    pub suspended: u64,
}

impl Ctx {
    pub fn new(focus: u8, chaos: bool, nprobes: usize) -> Self {
        Ctx {
            focus,
            chaos,
            off: 0,
            evals: [0; NPROP],
            viol: Vec::new(),
            known_count: vec![0; known().len()],
            known_first: vec![None; known().len()],
            probes: vec![0; nprobes],
            trans: Vec::new(),
            cover: Vec::new(),
            cover_cap: 8192,
            fp: 0xcbf29ce484222325,
            ev_idx: 0,
            steps: 0,
            sim_ns: 0,
            faults: 0,
            suspended: 0,
        }
    }

    #[inline(always)]
    pub fn on(&self, prop: u8) -> bool {
        self.off & (1u32 << prop) == 0
    }

    /// evaluate one oracle instance
    #[inline(always)]
    pub fn check(&mut self, prop: u8, oracle: &'static str, ok: bool, detail: impl FnOnce() -> String) {
        if self.off & (1u32 << prop) != 0 {
            return;
        }
        self.evals[prop as usize] += 1;
        if !ok {
            self.fail(prop, oracle, "", detail());
        }
    }

    /// like check, but the failure carries a class that a known-findings entry may match
    #[inline(always)]
    pub fn check_classed(
        &mut self,
        prop: u8,
        oracle: &'static str,
        ok: bool,
        class: impl FnOnce() -> &'static str,
        detail: impl FnOnce() -> String,
    ) {
        if self.off & (1u32 << prop) != 0 {
            return;
        }
        self.evals[prop as usize] += 1;
        if !ok {
            let c = class();
            self.fail(prop, oracle, c, detail());
        }
    }

    #[cold]
    #[inline(never)]
    pub fn fail(&mut self, prop: u8, oracle: &'static str, class: &str, detail: String) {
        if !class.is_empty() {
            for (i, k) in known().iter().enumerate() {
                if k.open && k.prop == prop && k.oracle == oracle && k.class == class {
                    self.known_count[i] += 1;
                    if self.known_first[i].is_none() {
                        self.known_first[i] = Some((self.ev_idx, detail));
                    }
                    return;
                }
            }
        }
        self.viol.push(Violation { prop, oracle, ev: self.ev_idx, detail });
        // one report per property and trace; later oracles of that property would only cascade
        self.off |= 1u32 << prop;
    }

    #[inline]
    pub fn cover(&mut self, item: u32) {
        if self.cover.len() < self.cover_cap {
            self.cover.push(item);
        }
    }
    #[inline(always)]
    pub fn probe(&mut self, i: usize) {
        self.probes[i] += 1;
    }
    #[inline(always)]
    pub fn fault(&mut self, i: usize) {
        self.probes[i] += 1;
        self.faults += 1;
    }

    /// record an abstract transition (distinct ones are counted over the batch) and fold it into the
    /// fingerprint of this trace
    #[inline]
    pub fn transition(&mut self, code: u32) {
        self.fp = (self.fp ^ code as u64).wrapping_mul(0x100000001b3);
        if self.trans.len() < 4096 {
            self.trans.push(code);
        }
    }
}

// ---------------------------------------------------------------------------------------------

pub trait Engine: 'static {
    const NAME: &'static str;
    /// names of the reach probes; the first NFAULT of them are fault kinds
    const PROBES: &'static [&'static str];
    const NFAULT: usize;
    /// what runs real code and what is a stub, for the evidence file
    const COMPONENTS: &'static [(&'static str, &'static str)];
    type Cfg: Clone + Send;
    type Ev: Clone + Send;
    type Exec;

    fn new_exec(cfg: &Self::Cfg, ctx: &mut Ctx) -> Self::Exec;
    fn step(ex: &mut Self::Exec, ev: &Self::Ev, ctx: &mut Ctx);
    fn finish(ex: &mut Self::Exec, ctx: &mut Ctx);
    /// one seeded run: builds one or more traces through `sink` (closed loop: it may look at the executor)
    fn run(rng: &mut Rng, prof: &Profile, run: u64, sink: &mut Sink<Self>)
    where
        Self: Sized;

    fn cfg_json(c: &Self::Cfg) -> J;
    fn cfg_parse(j: &J) -> Result<Self::Cfg, String>;
    fn ev_json(e: &Self::Ev) -> J;
    fn ev_parse(j: &J) -> Result<Self::Ev, String>;
    fn shrink_ev(e: &Self::Ev) -> Vec<Self::Ev>;
    fn shrink_cfg(_c: &Self::Cfg) -> Vec<Self::Cfg> {
        Vec::new()
    }
    fn merge(_a: &Self::Ev, _b: &Self::Ev) -> Option<Self::Ev> {
        None
    }
}

/// a trace being built or replayed against the real code
pub struct Trace<E: Engine> {
    pub cfg: E::Cfg,
    pub evs: Vec<E::Ev>,
    pub ex: Option<E::Exec>,
    pub ctx: Ctx,
    pub dead: bool,
    finished: bool,
}

impl<E: Engine> Trace<E> {
    pub fn new(cfg: E::Cfg, focus: u8, chaos: bool) -> Self {
        let mut ctx = Ctx::new(focus, chaos, E::PROBES.len());
        let r = catch_unwind(AssertUnwindSafe(|| E::new_exec(&cfg, &mut ctx)));
        let mut t = Trace { cfg, evs: Vec::new(), ex: None, ctx, dead: false, finished: false };
        match r {
            Ok(ex) => t.ex = Some(ex),
            Err(_) => t.on_panic("constructor"),
        }
        t
    }

    fn on_panic(&mut self, what: &str) {
        let in_real = IN_REAL.with(|f| f.replace(false));
        let msg = PANIC_MSG.with(|m| m.borrow().clone());
        if !in_real {
            eprintln!(
                "HARNESS-ERROR: panic outside the code under test ({}), engine {} event {}: {}",
                what,
                E::NAME,
                self.ctx.ev_idx,
                msg
            );
            let evs: Vec<J> = self.evs.iter().map(|e| E::ev_json(e)).collect();
            eprintln!("cfg={} events={}", E::cfg_json(&self.cfg).compact(), J::Arr(evs).compact());
            std::process::exit(2);
        }
        self.ctx.off &= !(1u32 << 17);
        self.ctx.evals[17] += 1;
        self.ctx.fail(17, "no_panic", "", format!("panic in {}: {}", what, msg));
        self.dead = true;
        self.ex = None;
    }

    /// record the event, then apply it to the real objects, the models and the oracles
    pub fn push(&mut self, ev: E::Ev) {
        if self.dead {
            return;
        }
        heartbeat();
        self.ctx.ev_idx = self.evs.len();
        self.evs.push(ev);
        let ev = self.evs.last().unwrap();
        let ex = self.ex.as_mut().unwrap();
        let ctx = &mut self.ctx;
        let r = catch_unwind(AssertUnwindSafe(|| E::step(ex, ev, ctx)));
        if r.is_err() {
            self.on_panic("event");
        }
    }

    pub fn finish(&mut self) {
        if self.finished {
            return;
        }
        self.finished = true;
        if self.dead {
            return;
        }
        self.ctx.ev_idx = self.evs.len().saturating_sub(1);
        let ex = self.ex.as_mut().unwrap();
        let ctx = &mut self.ctx;
        let r = catch_unwind(AssertUnwindSafe(|| E::finish(ex, ctx)));
        if r.is_err() {
            self.on_panic("finish");
        }
    }

    pub fn exec(&self) -> &E::Exec {
        self.ex.as_ref().unwrap()
    }

    pub fn to_json(&self, max_events: usize) -> J {
        trace_json::<E>(&self.cfg, &self.evs, max_events)
    }
}

pub fn trace_json<E: Engine>(cfg: &E::Cfg, evs: &[E::Ev], max_events: usize) -> J {
    let mut a: Vec<J> = evs.iter().take(max_events).map(|e| E::ev_json(e)).collect();
    if evs.len() > max_events {
        a.push(J::s(&format!("... {} more events", evs.len() - max_events)));
    }
    J::obj(vec![("engine", J::s(E::NAME)), ("cfg", E::cfg_json(cfg)), ("events", J::Arr(a))])
}

pub fn execute<E: Engine>(cfg: &E::Cfg, evs: &[E::Ev], focus: u8, chaos: bool) -> Trace<E> {
    let mut t = Trace::<E>::new(cfg.clone(), focus, chaos);
    for e in evs {
        if t.dead {
            break;
        }
        t.push(e.clone());
    }
    t.finish();
    t
}

pub struct Found {
    pub run: u64,
    pub sub: u64,
    pub seed: u64,
    pub v: Violation,
    pub cfg: J,
    pub evs: Vec<J>,
}

/// per-worker aggregation; merged over workers by commutative operations only
pub struct Agg {
    pub focus: u8,
    pub chaos: bool,
    pub runs: u64,
    pub traces: u64,
    pub events: u64,
    pub evals: [u64; NPROP],
    pub probes: Vec<u64>,
    pub trans: HashSet<u32>,
    pub cover: HashSet<u32>,
    pub fps: HashSet<u64>,
    pub steps: u64,
    pub sim_ns: u64,
    pub known_count: Vec<u64>,
    pub known_first: Vec<Option<(u64, String)>>,
    pub foreign: [u64; NPROP],
    pub found: Vec<Found>,
    pub samples: Vec<(u64, J)>,
    pub digest: u64,
    pub suspended: u64,
}

impl Agg {
    pub fn new(focus: u8, chaos: bool, nprobes: usize) -> Self {
        Agg {
            focus,
            chaos,
            runs: 0,
            traces: 0,
            events: 0,
            evals: [0; NPROP],
            probes: vec![0; nprobes],
            trans: HashSet::new(),
            cover: HashSet::new(),
            fps: HashSet::new(),
            steps: 0,
            sim_ns: 0,
            known_count: vec![0; known().len()],
            known_first: vec![None; known().len()],
            foreign: [0; NPROP],
            found: Vec::new(),
            samples: Vec::new(),
            digest: 0,
            suspended: 0,
        }
    }
    pub fn merge(&mut self, o: Agg) {
        self.runs += o.runs;
        self.traces += o.traces;
        self.events += o.events;
        for i in 0..NPROP {
            self.evals[i] += o.evals[i];
            self.foreign[i] += o.foreign[i];
        }
        if self.probes.len() < o.probes.len() {
            self.probes.resize(o.probes.len(), 0);
        }
        for (i, p) in o.probes.iter().enumerate() {
            self.probes[i] += p;
        }
        self.trans.extend(o.trans);
        self.cover.extend(o.cover);
        self.fps.extend(o.fps);
        self.steps += o.steps;
        self.sim_ns += o.sim_ns;
        for i in 0..o.known_count.len() {
            self.known_count[i] += o.known_count[i];
            match (&self.known_first[i], &o.known_first[i]) {
                (None, Some(x)) => self.known_first[i] = Some(x.clone()),
                (Some(a), Some(b)) if b.0 < a.0 => self.known_first[i] = Some(b.clone()),
                _ => {}
            }
        }
        self.found.extend(o.found);
        self.samples.extend(o.samples);
        self.digest ^= o.digest; // xor: independent of merge order
        self.suspended += o.suspended;
    }
}

pub struct Sink<'a, E: Engine> {
    pub agg: &'a mut Agg,
    pub run: u64,
    pub seed: u64,
    pub sub: u64,
    pub focus: u8,
    pub chaos: bool,
    _p: std::marker::PhantomData<E>,
}

impl<'a, E: Engine> Sink<'a, E> {
    pub fn begin(&mut self, cfg: E::Cfg) -> Trace<E> {
        Trace::<E>::new(cfg, self.focus, self.chaos)
    }

    pub fn end(&mut self, mut t: Trace<E>) {
        t.finish();
        let a = &mut *self.agg;
        a.traces += 1;
        a.events += t.evs.len() as u64;
        let c = &t.ctx;
        for i in 0..NPROP {
            a.evals[i] += c.evals[i];
        }
        for (i, p) in c.probes.iter().enumerate() {
            a.probes[i] += p;
        }
        for x in &c.trans {
            a.trans.insert(*x);
        }
        for x in &c.cover {
            a.cover.insert(*x);
        }
        a.steps += c.steps;
        a.sim_ns += c.sim_ns;
        a.suspended += c.suspended;
        let relevant = if self.focus == 17 { c.evals.iter().sum::<u64>() } else { c.evals[self.focus as usize] };
        if c.faults > 0 && relevant > 0 {
            a.fps.insert(c.fp);
        }
        for i in 0..c.known_count.len() {
            a.known_count[i] += c.known_count[i];
            if let Some((ev, d)) = &c.known_first[i] {
                let better = match &a.known_first[i] {
                    None => true,
                    Some((r, _)) => self.run < *r,
                };
                if better {
                    a.known_first[i] = Some((self.run, format!("run {} event {}: {}", self.run, ev, d)));
                }
            }
        }
        // digest of (trace content hash, evaluations, verdict) for the determinism self-check
        let mut h = splitmix(self.seed ^ self.sub);
        h = splitmix(h ^ c.fp);
        h = splitmix(h ^ c.evals.iter().fold(0u64, |x, y| x.wrapping_mul(31).wrapping_add(*y)));
        h = splitmix(h ^ t.evs.len() as u64);
        h = splitmix(h ^ c.viol.len() as u64);
        a.digest ^= h;
        if self.run < 3 && self.sub == 0 {
            a.samples.push((self.run, t.to_json(24)));
        }
        for v in &c.viol {
            if v.prop == self.focus {
                a.found.push(Found {
                    run: self.run,
                    sub: self.sub,
                    seed: self.seed,
                    v: v.clone(),
                    cfg: E::cfg_json(&t.cfg),
                    evs: t.evs.iter().map(|e| E::ev_json(e)).collect(),
                });
            } else {
                a.foreign[v.prop as usize] += 1;
            }
        }
        self.sub += 1;
    }
}

fn tag(name: &str) -> u64 {
    let mut h = 0xcbf29ce484222325u64;
    for b in name.bytes() {
        h = (h ^ b as u64).wrapping_mul(0x100000001b3);
    }
    h
}

pub fn run_seed(master: u64, engine: &str, focus: u8, i: u64) -> u64 {
    splitmix(master ^ tag(engine) ^ (focus as u64).wrapping_mul(0x9E3779B97F4A7C15) ^ i.wrapping_mul(0xD1342543DE82EF95))
}

/// run `runs` seeded simulations on `workers` threads; the result does not depend on `workers`
pub fn batch<E: Engine>(prof: &Profile, master: u64, runs: u64, workers: usize, slot_base: usize) -> Agg {
    let next = AtomicU64::new(0);
    let min_bad = AtomicU64::new(u64::MAX);
    let mut total = Agg::new(prof.focus, prof.chaos, E::PROBES.len());
    let aggs: Vec<Agg> = std::thread::scope(|s| {
        let hs: Vec<_> = (0..workers)
            .map(|w| {
                let next = &next;
                let min_bad = &min_bad;
                let prof = prof.clone();
                s.spawn(move || {
                    let slot = slot_base + w;
                    set_worker_slot(slot);
                    let mut agg = Agg::new(prof.focus, prof.chaos, E::PROBES.len());
                    loop {
                        let i = next.fetch_add(1, Ordering::Relaxed);
                        if i >= runs {
                            break;
                        }
                        if i > min_bad.load(Ordering::Relaxed) {
                            continue;
                        }
                        let seed = run_seed(master, E::NAME, prof.focus, i);
                        {
                            let mut g = INFLIGHT.lock().unwrap();
                            if g.len() <= slot {
                                g.resize(slot + 1, None);
                            }
                            g[slot] = Some((E::NAME.to_string(), prof.focus, seed, i, prof.chaos, prof.tier));
                        }
                        let mut rng = Rng::new(seed);
                        let before = agg.found.len();
                        {
                            let mut sink = Sink::<E> {
                                agg: &mut agg,
                                run: i,
                                seed,
                                sub: 0,
                                focus: prof.focus,
                                chaos: prof.chaos,
                                _p: std::marker::PhantomData,
                            };
                            E::run(&mut rng, &prof, i, &mut sink);
                        }
                        agg.runs += 1;
                        if agg.found.len() > before {
                            min_bad.fetch_min(i, Ordering::Relaxed);
                        }
                        {
                            let mut g = INFLIGHT.lock().unwrap();
                            g[slot] = None;
                        }
                    }
                    agg
                })
            })
            .collect();
        hs.into_iter().map(|h| h.join().unwrap()).collect()
    });
    for a in aggs {
        total.merge(a);
    }
    total.found.sort_by_key(|f| (f.run, f.sub, f.v.ev));
    total.samples.sort_by_key(|s| s.0);
    total
}

/// regenerate one run from its seed (used by the determinism self-check and by hang replays)
pub fn regenerate<E: Engine>(prof: &Profile, seed: u64, run: u64) -> Agg {
    let mut agg = Agg::new(prof.focus, prof.chaos, E::PROBES.len());
    let mut rng = Rng::new(seed);
    let mut sink =
        Sink::<E> { agg: &mut agg, run, seed, sub: 0, focus: prof.focus, chaos: prof.chaos, _p: std::marker::PhantomData };
    E::run(&mut rng, prof, run, &mut sink);
    agg.runs = 1;
    agg
}

// ---------------------------------------------------------------------------------------------
// minimisation: bounded delta debugging over the event list, then per-event and configuration
// simplification; a candidate is kept only if the same (property, oracle) still fails.

pub struct Minimised<E: Engine> {
    pub cfg: E::Cfg,
    pub evs: Vec<E::Ev>,
    pub v: Violation,
    pub executions: u64,
}

pub fn minimise<E: Engine>(cfg: E::Cfg, evs: Vec<E::Ev>, v: &Violation, chaos: bool, budget_execs: u64, budget_secs: f64) -> Minimised<E> {
    let start = std::time::Instant::now();
    let mut execs = 0u64;
    let prop = v.prop;
    let oracle = v.oracle;
    let mut fails = |cfg: &E::Cfg, evs: &[E::Ev], execs: &mut u64| -> Option<Violation> {
        *execs += 1;
        let t = execute::<E>(cfg, evs, prop, chaos);
        t.ctx.viol.iter().find(|x| x.prop == prop && x.oracle == oracle).cloned()
    };
    let mut cur_cfg = cfg;
    let mut cur = evs;
    let mut cur_v = match fails(&cur_cfg, &cur, &mut execs) {
        Some(x) => x,
        None => {
            // does not reproduce from the recorded trace: report unminimised, the caller flags it
            return Minimised { cfg: cur_cfg, evs: cur, v: v.clone(), executions: execs };
        }
    };
    let over = |execs: u64| execs >= budget_execs || start.elapsed().as_secs_f64() > budget_secs;

    // 1. nothing after the failing event matters
    if cur_v.ev + 1 < cur.len() {
        let t: Vec<E::Ev> = cur[..=cur_v.ev].to_vec();
        if let Some(x) = fails(&cur_cfg, &t, &mut execs) {
            cur = t;
            cur_v = x;
        }
    }
    let mut progress = true;
    while progress && !over(execs) {
        progress = false;
        // 2. ddmin: remove chunks
        let mut chunk = (cur.len() / 2).max(1);
        loop {
            let mut i = 0;
            while i < cur.len() && !over(execs) {
                let end = (i + chunk).min(cur.len());
                if end - i == cur.len() {
                    i = end;
                    continue;
                }
                let mut cand = cur[..i].to_vec();
                cand.extend_from_slice(&cur[end..]);
                if let Some(x) = fails(&cur_cfg, &cand, &mut execs) {
                    cur = cand;
                    cur_v = x;
                    if cur_v.ev + 1 < cur.len() {
                        cur.truncate(cur_v.ev + 1);
                    }
                    progress = true;
                } else {
                    i = end;
                }
            }
            if chunk == 1 || over(execs) {
                break;
            }
            chunk = (chunk / 2).max(1);
        }
        // 3. merge neighbours (e.g. two tick events into one)
        let mut i = 0;
        while i + 1 < cur.len() && !over(execs) {
            if let Some(m) = E::merge(&cur[i], &cur[i + 1]) {
                let mut cand = cur[..i].to_vec();
                cand.push(m);
                cand.extend_from_slice(&cur[i + 2..]);
                if let Some(x) = fails(&cur_cfg, &cand, &mut execs) {
                    cur = cand;
                    cur_v = x;
                    continue;
                }
            }
            i += 1;
        }
        // 4. simplify single events
        let mut i = 0;
        while i < cur.len() && !over(execs) {
            let mut improved = false;
            for cand_ev in E::shrink_ev(&cur[i]) {
                if over(execs) {
                    break;
                }
                let mut cand = cur.clone();
                cand[i] = cand_ev;
                if let Some(x) = fails(&cur_cfg, &cand, &mut execs) {
                    cur = cand;
                    cur_v = x;
                    if cur_v.ev + 1 < cur.len() {
                        cur.truncate(cur_v.ev + 1);
                    }
                    improved = true;
                    progress = true;
                    break;
                }
            }
            if !improved {
                i += 1;
            }
        }
        // 5. simplify the configuration
        loop {
            let mut improved = false;
            for cand_cfg in E::shrink_cfg(&cur_cfg) {
                if over(execs) {
                    break;
                }
                if let Some(x) = fails(&cand_cfg, &cur, &mut execs) {
                    cur_cfg = cand_cfg;
                    cur_v = x;
                    improved = true;
                    progress = true;
                    break;
                }
            }
            if !improved || over(execs) {
                break;
            }
        }
    }
    Minimised { cfg: cur_cfg, evs: cur, v: cur_v, executions: execs }
}

// ---------------------------------------------------------------------------------------------

pub fn replay_json<E: Engine>(
    prop: u8,
    chaos: bool,
    seed: u64,
    run: u64,
    cfg: &E::Cfg,
    evs: &[E::Ev],
    v: &Violation,
    original_events: usize,
    min_execs: u64,
) -> J {
    J::obj(vec![
        ("format", J::s("synthsim-trace-1")),
        ("engine", J::s(E::NAME)),
        ("property", J::s(&pid(prop))),
        ("chaos", J::Bool(chaos)),
        ("oracle", J::s(v.oracle)),
        ("seed", J::u(seed)),
        ("run", J::u(run)),
        ("original_events", J::u(original_events as u64)),
        ("minimiser_executions", J::u(min_execs)),
        ("violation", J::obj(vec![("event_index", J::u(v.ev as u64)), ("detail", J::s(&v.detail))])),
        ("cfg", E::cfg_json(cfg)),
        ("events", J::Arr(evs.iter().map(|e| E::ev_json(e)).collect())),
    ])
}

pub fn parse_trace<E: Engine>(j: &J) -> Result<(E::Cfg, Vec<E::Ev>), String> {
    let cfg = E::cfg_parse(j.get("cfg").ok_or("no cfg")?)?;
    let mut evs = Vec::new();
    for e in j.get("events").and_then(|x| x.as_arr()).ok_or("no events")? {
        evs.push(E::ev_parse(e)?);
    }
    Ok((cfg, evs))
}

/// replay a trace file against the real code; returns the violations of the file's property
pub fn replay_file<E: Engine>(j: &J) -> Result<Vec<Violation>, String> {
    let prop = j.get("property").and_then(|x| x.as_str()).and_then(parse_pid).ok_or("no property")?;
    let chaos = j.get("chaos").and_then(|x| x.as_bool()).unwrap_or(false);
    let (cfg, evs) = parse_trace::<E>(j)?;
    let t = execute::<E>(&cfg, &evs, prop, chaos);
    for (i, k) in known().iter().enumerate() {
        if k.prop == prop && t.ctx.known_count[i] > 0 {
            let d = t.ctx.known_first[i].clone().map(|x| x.1).unwrap_or_default();
            println!("KNOWN-FINDING: property={} {} [class {}; {}]", pid(prop), k.what, k.class, d);
        }
    }
    Ok(t.ctx.viol.iter().filter(|v| v.prop == prop).cloned().collect())
}

/// sample rates a deployment is likely to use: standard audio rates, power-of-two rates, control rates
pub const COMMON_RATES: [f32; 30] = [
    100.0, 200.0, 250.0, 500.0, 999.0, 1000.0, 1001.0, 2000.0, 4000.0, 8000.0, 8192.0, 10000.0, 11025.0, 12000.0, 16000.0, 16384.0,
    22050.0, 24000.0, 31250.0, 32000.0, 32768.0, 44100.0, 48000.0, 64000.0, 65536.0, 88200.0, 96000.0, 131072.0, 176400.0, 192000.0,
];

// small helpers shared by the engines -----------------------------------------------------------

pub fn f32j(x: f32) -> J {
    J::hex32(x.to_bits())
}
pub fn jf32(j: &J) -> Result<f32, String> {
    j.as_hex32().map(f32::from_bits).ok_or_else(|| format!("expected hex f32, got {}", j.compact()))
}
pub fn ju64(j: &J) -> Result<u64, String> {
    j.as_u64().ok_or_else(|| format!("expected integer, got {}", j.compact()))
}
pub fn ev_name(j: &J) -> Result<(&str, &[J]), String> {
    let a = j.as_arr().ok_or("event must be an array")?;
    let n = a.first().and_then(|x| x.as_str()).ok_or("event must start with its name")?;
    Ok((n, &a[1..]))
}
pub fn arg<'a>(a: &'a [J], i: usize) -> Result<&'a J, String> {
    a.get(i).ok_or_else(|| format!("missing argument {}", i))
}

/// simpler f32 candidates for shrinking an argument
pub fn shrink_f32(x: f32) -> Vec<f32> {
    let mut v = Vec::new();
    for c in [0.0f32, 1.0, 0.5, 0.001, 0.1, 10.0] {
        if c.to_bits() != x.to_bits() {
            v.push(c);
        }
    }
    if x.is_finite() {
        // fewer mantissa bits
        for keep in [4u32, 8, 12, 16] {
            let m = x.to_bits() & !((1u32 << (23 - keep)) - 1);
            if m != x.to_bits() {
                v.push(f32::from_bits(m));
            }
        }
    }
    v
}
