//! synthsim — deterministic simulation with fault injection for synth-utils-rs.
//!
//!   synthsim check <Cxx> [--tier quick|thorough] [--seed N] [--runs N] [--workers N]
//!   synthsim replay <file>
//!   synthsim digest <Cxx> [--runs N] [--workers N] [--tier T] [--seed N]
//!
//! exit 0: property held on everything explored; exit 1: `VIOLATION property=<id> replay=<path>`;
//! exit 2: harness error.

mod adsr;
mod core;
mod glide;
mod json;
mod lfo;
mod midi;
mod quant;
mod ribbon;
mod rng;

use crate::core::*;
use crate::json::J;
use std::sync::atomic::Ordering;
use std::time::Instant;

const DEFAULT_SEED: u64 = 20261004;

fn verif_dir() -> String {
    std::env::var("VERIF_DIR").unwrap_or_else(|_| "/verif".to_string())
}

struct Opts {
    tier: Tier,
    seed: u64,
    runs: Option<u64>,
    workers: usize,
    write_evidence: bool,
}

fn parse_opts(args: &[String]) -> Opts {
    let mut o = Opts {
        tier: match std::env::var("VERIF_TIER").as_deref() {
            Ok("thorough") => Tier::Thorough,
            _ => Tier::Quick,
        },
        seed: std::env::var("VERIF_SEED").ok().and_then(|s| s.trim().parse::<u64>().ok()).unwrap_or(DEFAULT_SEED),
        runs: None,
        workers: std::thread::available_parallelism().map(|n| n.get()).unwrap_or(4).min(32),
        write_evidence: true,
    };
    let mut i = 0;
    while i < args.len() {
        match args[i].as_str() {
            "--tier" => {
                i += 1;
                o.tier = if args.get(i).map(|s| s.as_str()) == Some("thorough") { Tier::Thorough } else { Tier::Quick };
            }
            "--seed" => {
                i += 1;
                o.seed = args.get(i).and_then(|s| s.parse().ok()).unwrap_or(DEFAULT_SEED);
            }
            "--runs" => {
                i += 1;
                o.runs = args.get(i).and_then(|s| s.parse().ok());
            }
            "--workers" => {
                i += 1;
                o.workers = args.get(i).and_then(|s| s.parse().ok()).unwrap_or(o.workers).clamp(1, 32);
            }
            "--no-evidence" => o.write_evidence = false,
            x => {
                eprintln!("HARNESS-ERROR: unknown option {}", x);
                std::process::exit(2);
            }
        }
        i += 1;
    }
    o
}

/// which engines decide a property, with the number of seeded runs per tier (quick, thorough)
fn plan(prop: u8) -> Vec<(&'static str, u64, u64)> {
    match prop {
        1 | 2 | 3 => vec![("adsr", 160_000, 3_000_000)],
        4 | 5 | 18 => vec![("midi", 400_000, 10_000_000)],
        6 => vec![("midi", 300_000, 6_000_000)],
        7 | 9 | 19 => vec![("quant", 800_000, 12_000_000)],
        10 | 11 | 12 => vec![("lfo", 160_000, 3_000_000)],
        13 | 14 => vec![("glide", 150_000, 4_000_000)],
        15 | 16 => vec![("ribbon", 40_000, 1_000_000)],
        17 => vec![
            ("adsr", 30_000, 600_000),
            ("midi", 150_000, 3_000_000),
            ("quant", 150_000, 3_000_000),
            ("lfo", 30_000, 600_000),
            ("glide", 40_000, 800_000),
            ("ribbon", 15_000, 300_000),
        ],
        _ => Vec::new(),
    }
}

struct Report {
    engine: &'static str,
    agg: Agg,
    probes: &'static [&'static str],
    nfault: usize,
    components: &'static [(&'static str, &'static str)],
    /// (path of the minimised replay file, detail) of the reported violation
    violation: Option<(String, String)>,
}

fn run_engine<E: Engine>(prop: u8, opts: &Opts, runs: u64) -> Report {
    let prof = Profile { focus: prop, tier: opts.tier, chaos: prop == 17 };
    let mut agg = batch::<E>(&prof, opts.seed, runs, opts.workers, 0);
    let mut violation = None;
    if let Some(f) = agg.found.first() {
        let dir = format!("{}/replays", verif_dir());
        let _ = std::fs::create_dir_all(&dir);
        let base = format!("{}/{}-{}-{}-run{}", dir, pid(prop), E::NAME, opts.seed, f.run);
        let tj = J::obj(vec![("cfg", f.cfg.clone()), ("events", J::Arr(f.evs.clone()))]);
        match parse_trace::<E>(&tj) {
            Ok((cfg, evs)) => {
                let orig = replay_json::<E>(prop, prof.chaos, f.seed, f.run, &cfg, &evs, &f.v, evs.len(), 0);
                let orig_path = format!("{}.orig.json", base);
                let _ = std::fs::write(&orig_path, orig.pretty());
                let n0 = evs.len();
                let m = minimise::<E>(cfg, evs, &f.v, prof.chaos, 4000, 90.0);
                let min = replay_json::<E>(prop, prof.chaos, f.seed, f.run, &m.cfg, &m.evs, &m.v, n0, m.executions);
                let min_path = format!("{}.min.json", base);
                if let Err(e) = std::fs::write(&min_path, min.pretty()) {
                    eprintln!("HARNESS-ERROR: cannot write {}: {}", min_path, e);
                    std::process::exit(2);
                }
                // replay the minimised file from disk in this process
                let back = std::fs::read_to_string(&min_path).ok().and_then(|s| J::parse(&s).ok());
                let reproduced = back
                    .and_then(|j| replay_file::<E>(&j).ok())
                    .map(|v| v.iter().any(|x| x.oracle == f.v.oracle))
                    .unwrap_or(false);
                println!(
                    "violation: property={} engine={} oracle={} run={} seed={} events {} -> {} (minimiser executions {}) reproduced_from_file={}",
                    pid(prop),
                    E::NAME,
                    f.v.oracle,
                    f.run,
                    f.seed,
                    n0,
                    m.evs.len(),
                    m.executions,
                    reproduced
                );
                println!("  detail: {}", m.v.detail);
                println!("  original trace: {}", orig_path);
                println!("  replay in a fresh process: {}/sim/target/release/synthsim replay {}", verif_dir(), min_path);
                if !reproduced {
                    eprintln!("HARNESS-ERROR: minimised trace did not reproduce from file; reporting the original trace");
                    violation = Some((orig_path, f.v.detail.clone()));
                } else {
                    violation = Some((min_path, m.v.detail.clone()));
                }
            }
            Err(e) => {
                eprintln!("HARNESS-ERROR: recorded trace does not parse back: {}", e);
                std::process::exit(2);
            }
        }
    }
    agg.found.truncate(8);
    Report { engine: E::NAME, agg, probes: E::PROBES, nfault: E::NFAULT, components: E::COMPONENTS, violation }
}

fn dispatch_run(engine: &str, prop: u8, opts: &Opts, runs: u64) -> Report {
    match engine {
        "adsr" => run_engine::<adsr::AdsrEngine>(prop, opts, runs),
        "midi" => run_engine::<midi::MidiEngine>(prop, opts, runs),
        "quant" => run_engine::<quant::QuantEngine>(prop, opts, runs),
        "lfo" => run_engine::<lfo::LfoEngine>(prop, opts, runs),
        "glide" => run_engine::<glide::GlideEngine>(prop, opts, runs),
        "ribbon" => run_engine::<ribbon::RibbonEngine>(prop, opts, runs),
        _ => {
            eprintln!("HARNESS-ERROR: unknown engine {}", engine);
            std::process::exit(2);
        }
    }
}

fn dispatch_replay(engine: &str, j: &J) -> Result<Vec<Violation>, String> {
    match engine {
        "adsr" => replay_file::<adsr::AdsrEngine>(j),
        "midi" => replay_file::<midi::MidiEngine>(j),
        "quant" => replay_file::<quant::QuantEngine>(j),
        "lfo" => replay_file::<lfo::LfoEngine>(j),
        "glide" => replay_file::<glide::GlideEngine>(j),
        "ribbon" => replay_file::<ribbon::RibbonEngine>(j),
        _ => Err(format!("unknown engine {}", engine)),
    }
}

fn dispatch_regen(engine: &str, prof: &Profile, seed: u64, run: u64) -> Agg {
    match engine {
        "adsr" => regenerate::<adsr::AdsrEngine>(prof, seed, run),
        "midi" => regenerate::<midi::MidiEngine>(prof, seed, run),
        "quant" => regenerate::<quant::QuantEngine>(prof, seed, run),
        "lfo" => regenerate::<lfo::LfoEngine>(prof, seed, run),
        "glide" => regenerate::<glide::GlideEngine>(prof, seed, run),
        "ribbon" => regenerate::<ribbon::RibbonEngine>(prof, seed, run),
        _ => {
            eprintln!("HARNESS-ERROR: unknown engine {}", engine);
            std::process::exit(2);
        }
    }
}

fn start_watchdog(check_prop: u8) {
    // VERIF_WATCHDOG_SECS overrides the limit (0 disables it; used for the optional smoke run under an
    // interpreter that is ~100x slower)
    let limit: u64 = std::env::var("VERIF_WATCHDOG_SECS").ok().and_then(|s| s.parse().ok()).unwrap_or(WATCHDOG_SECS);
    if limit == 0 {
        return;
    }
    std::thread::spawn(move || {
        let mut last = vec![(0u64, Instant::now()); MAX_WORKERS];
        loop {
            std::thread::sleep(std::time::Duration::from_millis(1000));
            let infl = INFLIGHT.lock().unwrap().clone();
            for (slot, job) in infl.iter().enumerate() {
                let hb = HEARTS[slot].load(Ordering::Relaxed);
                if job.is_none() || hb != last[slot].0 {
                    last[slot] = (hb, Instant::now());
                    continue;
                }
                if last[slot].1.elapsed().as_secs() >= limit {
                    let (engine, focus, seed, run, chaos, tier) = job.clone().unwrap();
                    let dir = format!("{}/replays", verif_dir());
                    let _ = std::fs::create_dir_all(&dir);
                    let path = format!("{}/{}-{}-hang-seed{}.json", dir, pid(focus), engine, seed);
                    let j = J::obj(vec![
                        ("format", J::s("synthsim-seeded-1")),
                        ("engine", J::s(&engine)),
                        ("property", J::s(&pid(focus))),
                        ("chaos", J::Bool(chaos)),
                        ("tier", J::s(if tier == Tier::Thorough { "thorough" } else { "quick" })),
                        ("seed", J::u(seed)),
                        ("run", J::u(run)),
                        ("violation", J::s("a call into the code under test did not return within the watchdog time")),
                    ]);
                    let _ = std::fs::write(&path, j.pretty());
                    if check_prop == 17 {
                        println!("VIOLATION property=C17 replay={}", path);
                        println!("  detail: engine {} run {} (seed {}): a call did not return for {} s", engine, run, seed, limit);
                        std::process::exit(1);
                    } else {
                        eprintln!(
                            "HARNESS-ERROR: the code under test hangs (engine {} seed {}), {} cannot be decided; see C17. replay={}",
                            engine,
                            seed,
                            pid(check_prop),
                            path
                        );
                        std::process::exit(2);
                    }
                }
            }
        }
    });
}

fn level_of(prop: u8) -> &'static str {
    if prop == 6 {
        "fault_enumeration"
    } else {
        "exploration"
    }
}

fn cmd_check(prop: u8, opts: &Opts) -> i32 {
    let t0 = Instant::now();
    load_known(&format!("{}/known_findings.json", verif_dir()));
    install_panic_hook();
    start_watchdog(prop);
    let pl = plan(prop);
    if pl.is_empty() {
        eprintln!("HARNESS-ERROR: {} is not decided by simulation (see MANIFEST.json not_applicable)", pid(prop));
        return 2;
    }
    println!(
        "synthsim check {} tier={} seed={} workers={}",
        pid(prop),
        if opts.tier == Tier::Thorough { "thorough" } else { "quick" },
        opts.seed,
        opts.workers
    );
    let mut reports = Vec::new();
    for (engine, q, th) in pl {
        let runs = opts.runs.unwrap_or(if opts.tier == Tier::Thorough { th } else { q });
        let r = dispatch_run(engine, prop, opts, runs);
        println!(
            "  engine {:<6} runs {:>8} traces {:>9} events {:>10} steps {:>12} oracle-evals({}) {:>12} distinct-transitions {:>6} nontrivial-distinct {:>8}",
            r.engine,
            r.agg.runs,
            r.agg.traces,
            r.agg.events,
            r.agg.steps,
            pid(prop),
            if prop == 17 { r.agg.evals.iter().sum::<u64>() } else { r.agg.evals[prop as usize] },
            r.agg.trans.len(),
            r.agg.fps.len()
        );
        reports.push(r);
    }
    let wall = t0.elapsed().as_secs_f64();

    // known findings
    let mut known_lines = Vec::new();
    for (i, k) in known().iter().enumerate() {
        if k.prop != prop || !k.open {
            continue;
        }
        let cnt: u64 = reports.iter().map(|r| r.agg.known_count.get(i).copied().unwrap_or(0)).sum();
        if cnt > 0 {
            let first = reports.iter().filter_map(|r| r.agg.known_first.get(i).cloned().flatten()).min_by_key(|x| x.0);
            println!(
                "KNOWN-FINDING: property={} {} [class {} hit {} times; e.g. {}]",
                pid(prop),
                k.what,
                k.class,
                cnt,
                first.map(|f| f.1).unwrap_or_default()
            );
            known_lines.push(J::obj(vec![("class", J::s(&k.class)), ("hits", J::u(cnt))]));
        }
    }
    let mut nviol = 0;
    for r in &reports {
        if let Some((path, _)) = &r.violation {
            println!("VIOLATION property={} replay={}", pid(prop), path);
            nviol += 1;
        }
    }

    if opts.write_evidence {
        write_evidence(prop, opts, &reports, wall, nviol, known_lines);
    }
    if nviol > 0 {
        1
    } else {
        println!("OK {} held on everything explored ({:.1} s)", pid(prop), wall);
        0
    }
}

fn write_evidence(prop: u8, opts: &Opts, reports: &[Report], wall: f64, nviol: u64, known_lines: Vec<J>) {
    let traces: u64 = reports.iter().map(|r| r.agg.traces).sum();
    let runs: u64 = reports.iter().map(|r| r.agg.runs).sum();
    let events: u64 = reports.iter().map(|r| r.agg.events).sum();
    let steps: u64 = reports.iter().map(|r| r.agg.steps).sum();
    let sim_ns: u64 = reports.iter().map(|r| r.agg.sim_ns).sum();
    let distinct: u64 = reports.iter().map(|r| r.agg.fps.len() as u64).sum();
    let trans: u64 = reports.iter().map(|r| r.agg.trans.len() as u64).sum();
    let cover: u64 = reports.iter().map(|r| r.agg.cover.len() as u64).sum();
    let suspended: u64 = reports.iter().map(|r| r.agg.suspended).sum();
    let evals: u64 = reports
        .iter()
        .map(|r| if prop == 17 { r.agg.evals.iter().sum::<u64>() } else { r.agg.evals[prop as usize] })
        .sum();
    let mut faults = Vec::new();
    let mut probes = Vec::new();
    let mut comps = Vec::new();
    let mut samples = Vec::new();
    let mut engines = Vec::new();
    let mut foreign = Vec::new();
    for r in reports {
        for (i, name) in r.probes.iter().enumerate() {
            let key = format!("{}.{}", r.engine, name);
            let v = J::u(r.agg.probes.get(i).copied().unwrap_or(0));
            if i < r.nfault {
                faults.push((key, v));
            } else {
                probes.push((key, v));
            }
        }
        for (c, k) in r.components {
            comps.push(J::obj(vec![("component", J::s(c)), ("ran", J::s(k))]));
        }
        for (_, s) in r.agg.samples.iter().take(if reports.len() > 1 { 1 } else { 3 }) {
            samples.push(s.clone());
        }
        engines.push(J::obj(vec![
            ("engine", J::s(r.engine)),
            ("runs", J::u(r.agg.runs)),
            ("traces", J::u(r.agg.traces)),
            ("events", J::u(r.agg.events)),
            ("steps", J::u(r.agg.steps)),
            ("first_run_seed", J::u(run_seed(opts.seed, r.engine, prop, 0))),
            ("last_run_seed", J::u(run_seed(opts.seed, r.engine, prop, r.agg.runs.saturating_sub(1)))),
        ]));
        for p in 1..NPROP {
            if r.agg.foreign[p] > 0 {
                foreign.push((format!("{}.{}", r.engine, pid(p as u8)), J::u(r.agg.foreign[p])));
            }
        }
    }
    let per_hour = |x: u64| J::Num((x as f64 / wall.max(1e-3) * 3600.0).round());
    let cov = J::Obj(vec![
        ("evaluations".into(), J::u(traces.max(1))),
        ("distinct_nontrivial".into(), J::u(distinct)),
        (
            "rule".into(),
            J::s(
                "evaluations = simulated traces executed against the real code (one seeded run builds one trace; a sweep run builds one trace per fault position). \
                 A trace is counted in distinct_nontrivial when at least one injected fault fired in it AND at least one oracle of this property was evaluated in it, \
                 and it is distinct when the hash of its sequence of abstract transitions (per-engine abstraction, see DESIGN.md 2.8) differs from every other counted trace; measured with a hash set.",
            ),
        ),
        ("samples".into(), J::Arr(samples)),
        ("oracle_evaluations".into(), J::u(evals)),
        ("seeded_runs".into(), J::u(runs)),
        ("events".into(), J::u(events)),
        ("simulated_steps".into(), J::u(steps)),
        ("simulated_seconds".into(), J::Num(sim_ns as f64 / 1e9)),
        ("runs_per_hour".into(), per_hour(runs)),
        ("traces_per_hour".into(), per_hour(traces)),
        ("distinct_abstract_transitions".into(), J::u(trans)),
        ("distinct_coverage_items".into(), J::u(cover)),
        ("fault_kinds_fired".into(), J::Obj(faults)),
        ("reach_probes".into(), J::Obj(probes)),
        ("runs_with_an_oracle_suspended_by_a_precondition".into(), J::u(suspended)),
        ("foreign_violations_not_reported_here".into(), J::Obj(foreign)),
        ("known_findings_hit".into(), J::Arr(known_lines)),
        ("engines".into(), J::Arr(engines)),
        ("components".into(), J::Arr(comps)),
        ("exhaustive".into(), J::Bool(false)),
        ("workers".into(), J::u(opts.workers as u64)),
    ]);
    let ev = J::Obj(vec![
        ("property_id".into(), J::s(&pid(prop))),
        ("tier".into(), J::s(if opts.tier == Tier::Thorough { "thorough" } else { "quick" })),
        ("seed".into(), J::u(opts.seed)),
        ("level".into(), J::s(level_of(prop))),
        ("coverage".into(), cov),
        (
            "assumptions".into(),
            J::Arr(vec![
                J::s("seeded sampling of schedules, configurations and fault sequences: a clean batch is evidence, not proof"),
                J::s("the unit of atomicity is one public API call (&mut self); call order is the whole schedule space"),
                J::s("reference models and tolerances are those derived in DESIGN.md section 5"),
                J::s("rustc/LLVM f32 arithmetic is the same on replay (same binary)"),
            ]),
        ),
        ("wall_s".into(), J::Num((wall * 1000.0).round() / 1000.0)),
        ("violations".into(), J::u(nviol)),
    ]);
    let dir = format!("{}/evidence", verif_dir());
    let _ = std::fs::create_dir_all(&dir);
    let path = format!("{}/{}.json", dir, pid(prop));
    if let Err(e) = std::fs::write(&path, ev.pretty()) {
        eprintln!("HARNESS-ERROR: cannot write {}: {}", path, e);
        std::process::exit(2);
    }
}

fn cmd_replay(path: &str) -> i32 {
    load_known(&format!("{}/known_findings.json", verif_dir()));
    install_panic_hook();
    let src = match std::fs::read_to_string(path) {
        Ok(s) => s,
        Err(e) => {
            eprintln!("HARNESS-ERROR: cannot read {}: {}", path, e);
            return 2;
        }
    };
    let j = match J::parse(&src) {
        Ok(j) => j,
        Err(e) => {
            eprintln!("HARNESS-ERROR: cannot parse {}: {}", path, e);
            return 2;
        }
    };
    let engine = j.get("engine").and_then(|x| x.as_str()).unwrap_or("").to_string();
    let prop = j.get("property").and_then(|x| x.as_str()).and_then(parse_pid).unwrap_or(0);
    if j.get("format").and_then(|x| x.as_str()) == Some("synthsim-seeded-1") {
        // hang replay: regenerate the run from its seed under the watchdog
        start_watchdog(17);
        let prof = Profile {
            focus: prop,
            tier: if j.get("tier").and_then(|x| x.as_str()) == Some("thorough") { Tier::Thorough } else { Tier::Quick },
            chaos: j.get("chaos").and_then(|x| x.as_bool()).unwrap_or(false),
        };
        let seed = j.get("seed").and_then(|x| x.as_u64()).unwrap_or(0);
        let run = j.get("run").and_then(|x| x.as_u64()).unwrap_or(0);
        set_worker_slot(0);
        {
            let mut g = INFLIGHT.lock().unwrap();
            g.resize(1, None);
            g[0] = Some((engine.clone(), prop, seed, run, prof.chaos, prof.tier));
        }
        let agg = dispatch_regen(&engine, &prof, seed, run);
        if let Some(f) = agg.found.first() {
            println!("VIOLATION property={} replay={}", pid(prop), path);
            println!("  detail: {}", f.v.detail);
            return 1;
        }
        println!("no violation reproduced from {}", path);
        return 0;
    }
    match dispatch_replay(&engine, &j) {
        Ok(v) => {
            if let Some(x) = v.first() {
                println!("VIOLATION property={} replay={}", pid(prop), path);
                println!("  oracle: {}  event_index: {}", x.oracle, x.ev);
                println!("  detail: {}", x.detail);
                1
            } else {
                println!("no violation of {} when replaying {}", pid(prop), path);
                0
            }
        }
        Err(e) => {
            eprintln!("HARNESS-ERROR: {}", e);
            2
        }
    }
}

/// determinism self-check support: print a digest of (trace hash, oracle evaluations, verdict) over a batch
fn cmd_digest(prop: u8, opts: &Opts) -> i32 {
    load_known(&format!("{}/known_findings.json", verif_dir()));
    install_panic_hook();
    for (engine, q, _) in plan(prop) {
        let runs = opts.runs.unwrap_or(q);
        let o = Opts { tier: opts.tier, seed: opts.seed, runs: Some(runs), workers: opts.workers, write_evidence: false };
        let prof = Profile { focus: prop, tier: o.tier, chaos: prop == 17 };
        let agg = match engine {
            "adsr" => batch::<adsr::AdsrEngine>(&prof, o.seed, runs, o.workers, 0),
            "midi" => batch::<midi::MidiEngine>(&prof, o.seed, runs, o.workers, 0),
            "quant" => batch::<quant::QuantEngine>(&prof, o.seed, runs, o.workers, 0),
            "lfo" => batch::<lfo::LfoEngine>(&prof, o.seed, runs, o.workers, 0),
            "glide" => batch::<glide::GlideEngine>(&prof, o.seed, runs, o.workers, 0),
            _ => batch::<ribbon::RibbonEngine>(&prof, o.seed, runs, o.workers, 0),
        };
        println!(
            "digest {} {} runs={} traces={} events={} steps={} evals={} trans={} fps={} found={} digest={:016x}",
            pid(prop),
            engine,
            agg.runs,
            agg.traces,
            agg.events,
            agg.steps,
            agg.evals.iter().sum::<u64>(),
            agg.trans.len(),
            agg.fps.len(),
            agg.found.len(),
            agg.digest
        );
    }
    0
}

fn main() {
    let args: Vec<String> = std::env::args().skip(1).collect();
    if args.is_empty() {
        eprintln!("usage: synthsim check <Cxx> [--tier quick|thorough] [--seed N] | replay <file> | digest <Cxx>");
        std::process::exit(2);
    }
    let code = match args[0].as_str() {
        "check" => {
            let prop = args.get(1).and_then(|s| parse_pid(s));
            match prop {
                Some(p) => cmd_check(p, &parse_opts(&args[2..])),
                None => {
                    eprintln!("HARNESS-ERROR: check needs a property id C01..C20");
                    2
                }
            }
        }
        "replay" => match args.get(1) {
            Some(p) => cmd_replay(p),
            None => 2,
        },
        "digest" => match args.get(1).and_then(|s| parse_pid(s)) {
            Some(p) => cmd_digest(p, &parse_opts(&args[2..])),
            None => 2,
        },
        _ => {
            eprintln!("HARNESS-ERROR: unknown command {}", args[0]);
            2
        }
    };
    std::process::exit(code);
}
