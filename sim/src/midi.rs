//! Engine `midi`: a MIDI sender, an unreliable wire, an edge-poll loop, a mode task and a restarter
//! around the real `MonoMidiReceiver`.  Decides C04, C05, C06, C18 and the MIDI part of C17.

use crate::core::*;
use crate::json::J;
use crate::real;
use crate::rng::Rng;
use synth_utils::mono_midi_receiver::{MonoMidiReceiver, NotePriority, RetriggerMode};

pub struct MidiEngine;

#[derive(Clone, Debug)]
pub struct Cfg {
    pub ch: u8,
}

#[derive(Clone, Debug)]
pub enum Ev {
    /// one byte on the wire; `skip` = the clean twin does not get it (real-time byte or foreign-channel message)
    Byte(u8, bool),
    /// the same byte n times in a row (a sequencer idling on MIDI clock / active sensing)
    Burst(u8, u32, bool),
    PollRising,
    PollFalling,
    /// 0 last, 1 high, 2 low
    Priority(u8),
    Retrigger(bool),
    /// receiver replaced by MonoMidiReceiver::new(ch) in mid-stream
    Restart(u8),
}

// fault kinds
const F_RT_INSERT: usize = 0;
const F_FOREIGN_MSG: usize = 1;
const F_STATUS_ABORT: usize = 2;
const F_DROP: usize = 3;
const F_DUP: usize = 4;
const F_CORRUPT: usize = 5;
const F_TRUNCATE: usize = 6;
const F_SYSEX: usize = 7;
const F_SYSCOMMON: usize = 8;
const F_RESTART: usize = 9;
const F_STRAY_NOTE_OFF: usize = 10;
const F_DUP_NOTE_ON: usize = 11;
const F_ALL_NOTES_OFF: usize = 12;
const F_RANDOM_BYTES: usize = 13;
const F_MODE_CHANGE_WHILE_HELD: usize = 14;
// probes
const P_RT_INSIDE_MESSAGE: usize = 15;
const P_ANO_WHILE_GATE_HIGH: usize = 16;
const P_STRAY_NOTE_OFF_GATE_LOW: usize = 17;
const P_POLL_TRUE_RISING: usize = 18;
const P_POLL_TRUE_FALLING: usize = 19;
const P_EDGE_OVERWRITTEN_BEFORE_READ: usize = 20;
const P_RUNNING_STATUS_MSG: usize = 21;
const P_CAP_EXCEEDED: usize = 22;
const P_TWIN_COMPARISONS: usize = 23;
const P_TWIN_DESYNC: usize = 24;
const P_VEL0_NOTE_OFF: usize = 25;
const P_RELEASE_OUT_OF_ORDER: usize = 26;
const P_CC_ON_CHANNEL: usize = 27;
const P_BEND_ON_CHANNEL: usize = 28;
const P_RESET_CONTROLLERS: usize = 29;
const P_MSG_ON_OTHER_CHANNEL: usize = 30;
const P_SWEEP_TRACES: usize = 31;
const P_HELD_GE_8: usize = 32;
const P_DATA_WITHOUT_STATUS: usize = 33;

/// MIDI 1.0 byte-stream decoder written from the rules quoted in C06
#[derive(Clone, Debug, Default)]
struct Decoder {
    status: u8, // 0 = no running status
    d1: Option<u8>,
    /// a status byte was seen since the last completed message
    fresh: bool,
}

#[derive(Clone, Copy, Debug)]
struct Msg {
    status: u8,
    d1: u8,
    d2: u8,
}

impl Decoder {
    fn feed(&mut self, b: u8) -> Option<Msg> {
        if b >= 0xF8 {
            return None; // system real-time: transparent
        }
        if b >= 0xF0 {
            // system common / exclusive: cancels running status, aborts a partial message; payload is ignored
            self.status = 0;
            self.d1 = None;
            return None;
        }
        if b >= 0x80 {
            self.status = b;
            self.d1 = None;
            self.fresh = true;
            return None;
        }
        if self.status == 0 {
            return None;
        }
        match self.status >> 4 {
            0xC | 0xD => Some(Msg { status: self.status, d1: b, d2: 0 }),
            _ => match self.d1.take() {
                None => {
                    self.d1 = Some(b);
                    None
                }
                Some(d1) => Some(Msg { status: self.status, d1, d2: b }),
            },
        }
    }
    fn mid_message(&self) -> bool {
        self.d1.is_some()
    }
    fn kind(&self) -> u32 {
        if self.status == 0 {
            0
        } else if self.d1.is_some() {
            2
        } else {
            1
        }
    }
}

/// the voice and controller model, written from C04 / C05 / C18
#[derive(Clone, Debug)]
struct Model {
    ch: u8,
    dec: Decoder,
    held: Vec<u8>,
    gate: bool,
    rising: bool,
    falling: bool,
    note: u8,
    vel: u8,
    vel_set: bool,
    /// outputs observed on the fresh receiver: the power-on defaults that CC 121 restores
    def: Option<Outs>,
    bend: Option<u16>,
    cc: [Option<u8>; 5], // mod wheel, volume, cutoff, resonance, portamento time
    porta_on: Option<bool>,
    sustain_on: Option<bool>,
    priority: u8,
    retrigger: bool,
    cap_exceeded: bool,
    /// selection under a priority chosen after the latest note message ("as of the latest note message ... according to
    /// the selected priority" can be read either way until the next note message)
    note_alt: Option<u8>,
    /// a zero-velocity note-on was the latest note-on: "the velocity of the most recent note-on" may or may not count it
    vel0_latest: bool,
}

impl Model {
    fn new(ch: u8) -> Self {
        Model {
            ch: ch.min(15),
            dec: Decoder::default(),
            held: Vec::new(),
            gate: false,
            rising: false,
            falling: false,
            note: 0,
            vel: 0,
            vel_set: false,
            def: None,
            bend: None,
            cc: [None; 5],
            porta_on: None,
            sustain_on: None,
            priority: 0,
            retrigger: false,
            cap_exceeded: false,
            note_alt: None,
            vel0_latest: false,
        }
    }
    fn choose(&self) -> u8 {
        match self.priority {
            0 => *self.held.last().unwrap_or(&self.note),
            1 => *self.held.iter().max().unwrap_or(&self.note),
            _ => *self.held.iter().min().unwrap_or(&self.note),
        }
    }
    fn note_on(&mut self, n: u8, v: u8) {
        self.vel = v;
        self.vel0_latest = false;
        self.note_alt = None;
        self.vel_set = true;
        if self.held.len() >= 32 {
            self.cap_exceeded = true;
        } else {
            self.held.push(n);
        }
        let was_low = !self.gate;
        self.note = self.choose();
        self.gate = true;
        self.falling = false;
        if self.retrigger || was_low {
            self.rising = true;
        }
    }
    fn note_off(&mut self, n: u8) {
        self.note_alt = None;
        self.held.retain(|x| *x != n);
        if self.held.is_empty() {
            if self.gate {
                self.falling = true;
            }
            self.gate = false;
            self.rising = false;
        } else {
            self.note = self.choose();
        }
    }
    fn all_notes_off(&mut self) {
        self.note_alt = None;
        self.held.clear();
        if self.gate {
            self.falling = true;
        }
        self.gate = false;
        self.rising = false;
    }
    fn bend_f64(b: u16) -> f64 {
        let v = b as i32 - 8192;
        if v > 0 {
            v as f64 / 8191.0
        } else {
            v as f64 / 8192.0
        }
    }
}

/// `got` is value/127 as an f32: exact at the end points the statement names, within 2 ulp of 1.0 elsewhere
/// (so that `v * (1/127)` is accepted and `v / 128` is not)
fn is_v_over_127(got_bits: u32, v: u8) -> bool {
    let got = f32::from_bits(got_bits);
    match v {
        0 => got == 0.0,
        127 => got == 1.0,
        _ => (got as f64 - v as f64 / 127.0).abs() <= 2.4e-7,
    }
}

#[derive(Clone, Copy, PartialEq, Debug)]
struct Outs {
    gate: bool,
    note: u8,
    vel: u32,
    bend: u32,
    cc: [u32; 5],
    porta_on: bool,
    sustain_on: bool,
}

fn outs(r: &MonoMidiReceiver) -> Outs {
    Outs {
        gate: r.gate(),
        note: r.note_num(),
        vel: r.velocity().to_bits(),
        bend: r.pitch_bend().to_bits(),
        cc: [
            r.mod_wheel().to_bits(),
            r.volume().to_bits(),
            r.vcf_cutoff().to_bits(),
            r.vcf_resonance().to_bits(),
            r.portamento_time().to_bits(),
        ],
        porta_on: r.portamento_enabled(),
        sustain_on: r.sustain_enabled(),
    }
}

const CC_NUMS: [u8; 5] = [1, 7, 71, 74, 5];
const CC_NAMES: [&str; 5] = ["mod_wheel", "volume", "vcf_cutoff", "vcf_resonance", "portamento_time"];

pub struct Exec {
    rx: MonoMidiReceiver,
    twin: MonoMidiReceiver,
    m: Model,
    twin_dec: Decoder,
    // twin-stream validity tracking (only ever suspends the twin oracle, never fails it)
    foreign_left: u8,
    need_status: bool,
    twin_ok: bool,
    // recorded history for C18
    cc_hist: [[Option<u32>; 128]; 5],
    bend_seen: std::collections::BTreeMap<u16, u32>,
    polls_since_edge: u32,
    /// C05 edge latches, driven by the *observed* gate() and the decoded note-ons (the statement is about
    /// changes of gate(), so it needs no <= 32-keys precondition)
    lr: bool,
    lf: bool,
}

impl Exec {
    pub fn held(&self) -> &[u8] {
        &self.m.held
    }
    pub fn listened(&self) -> u8 {
        self.m.ch
    }
    pub fn cap_exceeded(&self) -> bool {
        self.m.cap_exceeded
    }

    fn compare(&mut self, ctx: &mut Ctx, completed: Option<Msg>, b: u8) {
        let o = outs(&self.rx);
        let m = &self.m;
        let notes_ok = !m.cap_exceeded;
        let def = m.def.unwrap_or(o);
        let same = |a: u32, b: u32| a == b || f32::from_bits(a) == f32::from_bits(b); // -0.0 is 0.0
        let vel_ok = (if m.vel_set { is_v_over_127(o.vel, m.vel) } else { same(o.vel, def.vel) })
            || (m.vel0_latest && f32::from_bits(o.vel) == 0.0);
        let note_ok = o.note == m.note || Some(o.note) == m.note_alt;
        let note_side = !notes_ok || (o.gate == m.gate && note_ok && vel_ok);
        let mut cc_ok = true;
        for i in 0..5 {
            let ok = match m.cc[i] {
                Some(v) => is_v_over_127(o.cc[i], v),
                None => same(o.cc[i], def.cc[i]),
            };
            if !ok {
                cc_ok = false;
            }
        }
        // C18 fixes three anchors and strict monotonicity, not a formula: what follows from that for a single value is
        // checked here (anchors, the open intervals between them, one output per 14-bit value); the order between
        // different values is checked against everything seen so far when a bend message completes
        let bend_ok = match m.bend {
            None => same(o.bend, def.bend),
            Some(b) => {
                let got = f32::from_bits(o.bend);
                let anchors = (b != 8192 || got == 0.0) && (b != 0 || got == -1.0) && (b != 16383 || got == 1.0);
                let between = if b < 8192 { got >= -1.0 && got < 0.0 && (b == 0 || got > -1.0) } else if b > 8192 { got > 0.0 && got <= 1.0 && (b == 16383 || got < 1.0) } else { true };
                let one_value = self.bend_seen.get(&b).map(|bits| *bits == o.bend).unwrap_or(true);
                anchors && between && one_value
            }
        };
        let porta_ok = o.porta_on == m.porta_on.unwrap_or(def.porta_on);
        let sus_ok = o.sustain_on == m.sustain_on.unwrap_or(def.sustain_on);
        let ctl_side = cc_ok && bend_ok && porta_ok && sus_ok;
        let describe = |what: &str| {
            format!(
                "after byte 0x{:02x} ({}): receiver gate={} note={} vel={} bend={} cc={:?} porta={} sus={} | decoded stream says gate={} note={} vel={}/127 bend14={:?} cc={:?} porta={:?} sus={:?} held={:?} (None = power-on default)",
                b,
                what,
                o.gate,
                o.note,
                f32::from_bits(o.vel),
                f32::from_bits(o.bend),
                o.cc.iter().map(|x| f32::from_bits(*x)).collect::<Vec<_>>(),
                o.porta_on,
                o.sustain_on,
                m.gate,
                m.note,
                m.vel,
                m.bend,
                m.cc,
                m.porta_on,
                m.sustain_on,
                m.held
            )
        };
        // C06: every observable output after every byte
        ctx.check(6, "outputs_match_decoded_stream", note_side && ctl_side, || describe("any byte"));
        if let Some(msg) = completed {
            let on_ch = msg.status & 0x0F == m.ch;
            let kind = msg.status >> 4;
            if on_ch && (kind == 0x8 || kind == 0x9 || (kind == 0xB && msg.d1 == 123)) && notes_ok {
                ctx.check(4, "voice_tracks_held_keys", note_side, || describe("note message"));
            }
            if on_ch && (kind == 0xB || kind == 0xE) {
                // routed controllers land on their output, every other controller number changes nothing at all
                // (All Notes Off, CC 123, is the one controller that legitimately touches the note side)
                ctx.check(18, "controller_routing", ctl_side && note_side, || describe("controller message"));
            }
        }
    }
}

fn prio(p: u8) -> NotePriority {
    match p {
        0 => NotePriority::Last,
        1 => NotePriority::High,
        _ => NotePriority::Low,
    }
}
fn retrig(r: bool) -> RetriggerMode {
    if r {
        RetriggerMode::AllowRetrigger
    } else {
        RetriggerMode::NoRetrigger
    }
}

/// a fresh receiver as the firmware sets it up: the modes are written explicitly (their power-on values are not
/// part of any property), the remaining power-on outputs are observed and become the model's defaults
fn fresh(ch: u8, priority: u8, retrigger: bool) -> (MonoMidiReceiver, MonoMidiReceiver, Model) {
    let mut rx = real!(MonoMidiReceiver::new(ch));
    let mut twin = real!(MonoMidiReceiver::new(ch));
    real!(rx.set_note_priority(prio(priority)));
    real!(twin.set_note_priority(prio(priority)));
    real!(rx.set_retrigger_mode(retrig(retrigger)));
    real!(twin.set_retrigger_mode(retrig(retrigger)));
    let mut m = Model::new(ch);
    m.priority = priority.min(2);
    m.retrigger = retrigger;
    let o = outs(&rx);
    m.def = Some(o);
    m.note = o.note;
    (rx, twin, m)
}

/// one byte off the wire into the real receiver, the clean twin, the decoder/voice model and the oracles
fn byte_step(ex: &mut Exec, b: u8, skip: bool, ctx: &mut Ctx) {
                ctx.steps += 1;
        ctx.sim_ns += 320_000; // 31 250 baud, 10 bits per byte
        let pre_kind = ex.m.dec.kind();
        if b >= 0xF8 && (ex.m.dec.mid_message() || (ex.m.dec.status != 0 && pre_kind == 1)) {
            ctx.probe(P_RT_INSIDE_MESSAGE);
        }
        if b < 0x80 && ex.m.dec.status == 0 {
            ctx.probe(P_DATA_WITHOUT_STATUS);
        }
        let g0 = ex.rx.gate();
        real!(ex.rx.parse(b));
        let g1 = ex.rx.gate();
        let rising_before = ex.m.rising;
        let falling_before = ex.m.falling;
        let completed = ex.m.dec.feed(b);
        let was_fresh = ex.m.dec.fresh;
        if completed.is_some() {
            ex.m.dec.fresh = false;
        }
        if let Some(msg) = completed {
            let m = &mut ex.m;
            if msg.status & 0x0F == m.ch {
                match msg.status >> 4 {
                    0x9 if msg.d2 > 0 => {
                        if m.held.contains(&msg.d1) {
                            ctx.fault(F_DUP_NOTE_ON);
                        }
                        let was_cap = m.cap_exceeded;
                        m.note_on(msg.d1, msg.d2);
                        if m.cap_exceeded && !was_cap {
                            ctx.probe(P_CAP_EXCEEDED);
                            ctx.suspended += 1;
                        }
                        if m.held.len() >= 8 {
                            ctx.probe(P_HELD_GE_8);
                        }
                        if falling_before {
                            ctx.probe(P_EDGE_OVERWRITTEN_BEFORE_READ);
                        }
                    }
                    0x8 | 0x9 => {
                        if msg.status >> 4 == 0x9 {
                            ctx.probe(P_VEL0_NOTE_OFF);
                            m.vel0_latest = true;
                        }
                        if !m.held.contains(&msg.d1) {
                            ctx.fault(F_STRAY_NOTE_OFF);
                            if !m.gate {
                                ctx.probe(P_STRAY_NOTE_OFF_GATE_LOW);
                            }
                        } else if m.held.last() != Some(&msg.d1) {
                            ctx.probe(P_RELEASE_OUT_OF_ORDER);
                        }
                        m.note_off(msg.d1);
                        if rising_before && !m.rising {
                            ctx.probe(P_EDGE_OVERWRITTEN_BEFORE_READ);
                        }
                    }
                    0xE => {
                        m.bend = Some(((msg.d2 as u16) << 7) | msg.d1 as u16);
                        ctx.probe(P_BEND_ON_CHANNEL);
                        ctx.cover(1 << 20 | m.bend.unwrap_or(0) as u32);
                    }
                    0xB => {
                        ctx.probe(P_CC_ON_CHANNEL);
                        ctx.cover((msg.d1 as u32) << 7 | msg.d2 as u32);
                        match msg.d1 {
                            1 => m.cc[0] = Some(msg.d2),
                            7 => m.cc[1] = Some(msg.d2),
                            71 => m.cc[2] = Some(msg.d2),
                            74 => m.cc[3] = Some(msg.d2),
                            5 => m.cc[4] = Some(msg.d2),
                            65 => m.porta_on = Some(msg.d2 >= 64),
                            64 => m.sustain_on = Some(msg.d2 >= 64),
                            121 => {
                                ctx.probe(P_RESET_CONTROLLERS);
                                m.cc = [None; 5];
                                m.bend = None;
                                m.porta_on = None;
                                m.sustain_on = None;
                            }
                            123 => {
                                // MIDI 1.0 defines All Notes Off as controller 123 with value 0; what a non-zero value does
                                // is not stated, so for those the model follows what the receiver did (act or ignore)
                                if msg.d2 == 0 || !g1 || !m.gate {
                                    ctx.fault(F_ALL_NOTES_OFF);
                                    if m.gate {
                                        ctx.probe(P_ANO_WHILE_GATE_HIGH);
                                    }
                                    m.all_notes_off();
                                }
                            }
                            _ => {}
                        }
                    }
                    _ => {}
                }
            } else {
                ctx.probe(P_MSG_ON_OTHER_CHANNEL);
            }
        }
        if let Some(msg) = completed {
            if msg.status & 0x0F == ex.m.ch && msg.status >> 4 == 0x9 && msg.d2 > 0 {
                if ex.m.retrigger || (!g0 && g1) {
                    ex.lr = true;
                }
                ex.lf = false;
            }
        }
        if g0 && !g1 {
            ex.lf = true;
            ex.lr = false;
        }
        ex.compare(ctx, completed, b);
        // history for C18
        if let Some(msg) = completed {
            if msg.status & 0x0F == ex.m.ch {
                if msg.status >> 4 == 0xB {
                    for i in 0..5 {
                        if msg.d1 == CC_NUMS[i] {
                            let got = [
                                ex.rx.mod_wheel(),
                                ex.rx.volume(),
                                ex.rx.vcf_cutoff(),
                                ex.rx.vcf_resonance(),
                                ex.rx.portamento_time(),
                            ][i];
                            ex.cc_hist[i][msg.d2 as usize] = Some(got.to_bits());
                        }
                    }
                } else if msg.status >> 4 == 0xE {
                    let b14 = ex.m.bend.unwrap_or(8192);
                    let got = ex.rx.pitch_bend();
                    if !ex.bend_seen.contains_key(&b14) {
                        let below = ex.bend_seen.range(..b14).next_back().map(|(k, v)| (*k, f32::from_bits(*v)));
                        let above = ex.bend_seen.range(b14 + 1..).next().map(|(k, v)| (*k, f32::from_bits(*v)));
                        if let Some((k, f)) = below {
                            ctx.check(18, "pitch_bend_strictly_increasing", got > f, || {
                                format!("pitch bend {} -> {:e} but {} -> {:e}", k, f, b14, got)
                            });
                        }
                        if let Some((k, f)) = above {
                            ctx.check(18, "pitch_bend_strictly_increasing", got < f, || {
                                format!("pitch bend {} -> {:e} but {} -> {:e}", b14, got, k, f)
                            });
                        }
                        ex.bend_seen.insert(b14, got.to_bits());
                    }
                }
            }
        }
        // ---------------- clean twin
        if ex.twin_ok {
            if skip {
                if b >= 0xF8 {
                    // always transparent
                } else if ex.foreign_left > 0 && b < 0x80 {
                    ex.foreign_left -= 1;
                    if ex.foreign_left == 0 {
                        ex.need_status = true;
                    }
                } else if (0x80..0xF0).contains(&b)
                    && (b & 0x0F) != ex.m.ch
                    && ex.foreign_left == 0
                    && ex.twin_dec.d1.is_none()
                {
                    ex.foreign_left = if matches!(b >> 4, 0xC | 0xD) { 1 } else { 2 };
                } else {
                    ex.twin_ok = false;
                }
            } else {
                if ex.foreign_left > 0 && b < 0xF8 {
                    ex.twin_ok = false;
                }
                if ex.need_status && b < 0xF8 {
                    if b >= 0x80 {
                        ex.need_status = false;
                    } else {
                        ex.twin_ok = false;
                    }
                }
                if ex.twin_ok {
                    real!(ex.twin.parse(b));
                    ex.twin_dec.feed(b);
                }
            }
            if !ex.twin_ok {
                ctx.probe(P_TWIN_DESYNC);
                ctx.suspended += 1;
            } else if ex.foreign_left == 0 && !ex.need_status {
                let a = outs(&ex.rx);
                let t = outs(&ex.twin);
                ctx.probe(P_TWIN_COMPARISONS);
                ctx.check(6, "clean_twin_agrees", a == t, || {
                    format!(
                        "after byte 0x{:02x}: receiver {:?} differs from the twin that never saw the real-time / foreign-channel bytes {:?}",
                        b, a, t
                    )
                });
            }
        }
        if completed.is_some() && !was_fresh {
            ctx.probe(P_RUNNING_STATUS_MSG);
        }
        let m = &ex.m;
        let cls = if b >= 0xF8 {
            0
        } else if b >= 0xF0 {
            1
        } else if b >= 0x80 {
            if b & 0x0F == m.ch {
                2 + ((b >> 4) as u32 - 8) % 4
            } else {
                6
            }
        } else {
            7
        };
        ctx.transition(
            pre_kind
                | cls << 2
                | (m.held.len().min(3) as u32) << 5
                | (m.gate as u32) << 7
                | (m.rising as u32) << 8
                | (m.falling as u32) << 9
                | (completed.is_some() as u32) << 10,
        );
}

impl Engine for MidiEngine {
    const NAME: &'static str = "midi";
    const PROBES: &'static [&'static str] = &[
        "fault_realtime_byte_inserted",
        "fault_foreign_channel_message_inserted",
        "fault_status_byte_aborts_message",
        "fault_byte_dropped",
        "fault_byte_duplicated",
        "fault_byte_corrupted",
        "fault_message_truncated",
        "fault_sysex",
        "fault_system_common",
        "fault_receiver_restart",
        "fault_stray_note_off",
        "fault_duplicate_note_on",
        "fault_all_notes_off",
        "fault_random_bytes",
        "fault_mode_change_while_notes_held",
        "realtime_byte_inside_message",
        "all_notes_off_while_gate_high",
        "stray_note_off_gate_low",
        "poll_returned_true_rising",
        "poll_returned_true_falling",
        "edge_overwritten_before_read",
        "running_status_message_completed",
        "more_than_32_outstanding",
        "clean_twin_comparisons",
        "clean_twin_desynchronised",
        "velocity_zero_note_off",
        "release_out_of_press_order",
        "control_change_on_listened_channel",
        "pitch_bend_on_listened_channel",
        "reset_all_controllers",
        "message_on_other_channel",
        "sweep_traces",
        "eight_or_more_keys_held",
        "data_byte_without_status",
    ];
    const NFAULT: usize = 15;
    const COMPONENTS: &'static [(&'static str, &'static str)] = &[
        ("synth_utils::mono_midi_receiver::MonoMidiReceiver + midi-convert parser + midi-types + heapless::Vec", "real code"),
        ("second MonoMidiReceiver fed the stream without real-time / foreign-channel bytes (clean twin)", "real code"),
        ("MIDI sender, UART wire with faults, edge-poll loop, mode task, restarter", "simulator stub (seeded scheduler)"),
        ("MIDI 1.0 byte-stream decoder + mono voice/controller model", "oracle written from the property statements"),
    ];
    type Cfg = Cfg;
    type Ev = Ev;
    type Exec = Exec;

    fn new_exec(cfg: &Cfg, _ctx: &mut Ctx) -> Exec {
        let (rx, twin, m) = fresh(cfg.ch, 0, false);
        Exec {
            rx,
            twin,
            m,
            twin_dec: Decoder::default(),
            foreign_left: 0,
            need_status: false,
            twin_ok: true,
            cc_hist: [[None; 128]; 5],
            bend_seen: std::collections::BTreeMap::new(),
            polls_since_edge: 0,
            lr: false,
            lf: false,
        }
    }

    fn step(ex: &mut Exec, ev: &Ev, ctx: &mut Ctx) {
        match ev {
            Ev::Byte(b, skip) => byte_step(ex, *b, *skip, ctx),
            Ev::Burst(b, n, skip) => {
                for i in 0..*n {
                    byte_step(ex, *b, *skip, ctx);
                    if i & 0xffff == 0xffff {
                        heartbeat();
                    }
                }
            }
            Ev::PollRising | Ev::PollFalling => {
                let rising = matches!(ev, Ev::PollRising);
                let got = if rising { real!(ex.rx.rising_gate()) } else { real!(ex.rx.falling_gate()) };
                let gate = ex.rx.gate();
                let want = if rising { ex.lr } else { ex.lf };
                {
                    let held = ex.m.held.clone();
                    ctx.check(5, if rising { "rising_edge_latch" } else { "falling_edge_latch" }, got == want, || {
                        format!(
                            "{}_gate() returned {} but the history of gate() changes, note-ons and polls says {} (gate={}, held={:?})",
                            if rising { "rising" } else { "falling" },
                            got,
                            want,
                            gate,
                            held
                        )
                    });
                    if got {
                        ctx.check(5, "edge_implies_level", gate == rising, || {
                            format!("{}_gate() true while gate()={}", if rising { "rising" } else { "falling" }, gate)
                        });
                    }
                }
                if got {
                    ctx.probe(if rising { P_POLL_TRUE_RISING } else { P_POLL_TRUE_FALLING });
                }
                // the getter is self-clearing on both sides; resynchronise the model with what was observed
                if rising {
                    ex.m.rising = false;
                    ex.lr = false;
                } else {
                    ex.m.falling = false;
                    ex.lf = false;
                }
                ex.polls_since_edge += 1;
                ctx.transition(1 << 12 | (rising as u32) << 11 | (got as u32) << 10 | (ex.m.gate as u32) << 7);
            }
            Ev::Priority(p) => {
                real!(ex.rx.set_note_priority(prio(*p)));
                real!(ex.twin.set_note_priority(prio(*p)));
                ex.m.priority = (*p).min(2);
                if !ex.m.held.is_empty() {
                    ctx.fault(F_MODE_CHANGE_WHILE_HELD);
                    ex.m.note_alt = Some(ex.m.choose());
                }
                let o = outs(&ex.rx);
                let m = &ex.m;
                if !m.cap_exceeded {
                    ctx.check(4, "mode_change_keeps_outputs", o.gate == m.gate && (o.note == m.note || Some(o.note) == m.note_alt), || {
                        format!("set_note_priority changed gate/note to {}/{} (expected {}/{})", o.gate, o.note, m.gate, m.note)
                    });
                }
                ctx.transition(2 << 12 | (*p as u32) << 8 | m.held.len().min(3) as u32);
            }
            Ev::Retrigger(r) => {
                real!(ex.rx.set_retrigger_mode(retrig(*r)));
                real!(ex.twin.set_retrigger_mode(retrig(*r)));
                ex.m.retrigger = *r;
                if !ex.m.held.is_empty() {
                    ctx.fault(F_MODE_CHANGE_WHILE_HELD);
                }
                ctx.transition(3 << 12 | (*r as u32) << 8 | ex.m.held.len().min(3) as u32);
            }
            Ev::Restart(ch) => {
                ctx.fault(F_RESTART);
                // power cycle: the firmware re-applies its mode settings, everything else starts from power-on
                let (rx, twin, m) = fresh(*ch, ex.m.priority, ex.m.retrigger);
                ex.rx = rx;
                ex.twin = twin;
                ex.m = m;
                ex.twin_dec = Decoder::default();
                ex.foreign_left = 0;
                ex.need_status = false;
                ex.twin_ok = true;
                ex.lr = false;
                ex.lf = false;
                let o = outs(&ex.rx);
                // C04: no key is down after power-on
                ctx.check(6, "gate_low_after_power_on", !o.gate, || format!("fresh receiver outputs {:?}", o));
                ctx.transition(4 << 12 | (*ch).min(16) as u32);
            }
        }
    }

    fn finish(ex: &mut Exec, ctx: &mut Ctx) {
        // C18 over the recorded history: strictly increasing, exact end points
        for i in 0..5 {
            let mut last: Option<(usize, f32)> = None;
            for v in 0..128usize {
                if let Some(bits) = ex.cc_hist[i][v] {
                    let out = f32::from_bits(bits);
                    if let Some((pv, po)) = last {
                        ctx.check(18, "controller_strictly_increasing", out > po, || {
                            format!("{}: value {} -> {:e} but smaller value {} -> {:e}", CC_NAMES[i], v, out, pv, po)
                        });
                    }
                    if v == 0 {
                        ctx.check(18, "controller_endpoints", out == 0.0, || format!("{}: value 0 -> {:e}", CC_NAMES[i], out));
                    }
                    if v == 127 {
                        ctx.check(18, "controller_endpoints", out == 1.0, || format!("{}: value 127 -> {:e}", CC_NAMES[i], out));
                    }
                    last = Some((v, out));
                }
            }
        }
    }

    fn run(rng: &mut Rng, prof: &Profile, run: u64, sink: &mut Sink<Self>) {
        if prof.focus == 6 && run % 8 == 7 {
            sweep_run(rng, sink);
        } else {
            random_run(rng, prof, sink);
        }
    }

    fn cfg_json(c: &Cfg) -> J {
        J::obj(vec![("channel_arg", J::u(c.ch as u64))])
    }
    fn cfg_parse(j: &J) -> Result<Cfg, String> {
        Ok(Cfg { ch: ju64(j.get("channel_arg").ok_or("no channel_arg")?)? as u8 })
    }
    fn ev_json(e: &Ev) -> J {
        match e {
            Ev::Byte(b, skip) => {
                let mut v = vec![J::s("byte"), J::Str(format!("0x{:02x}", b))];
                if *skip {
                    v.push(J::s("not_sent_to_clean_twin"));
                }
                J::Arr(v)
            }
            Ev::Burst(b, n, skip) => {
                let mut v = vec![J::s("burst"), J::Str(format!("0x{:02x}", b)), J::u(*n as u64)];
                if *skip {
                    v.push(J::s("not_sent_to_clean_twin"));
                }
                J::Arr(v)
            }
            Ev::PollRising => J::Arr(vec![J::s("poll"), J::s("rising")]),
            Ev::PollFalling => J::Arr(vec![J::s("poll"), J::s("falling")]),
            Ev::Priority(p) => J::Arr(vec![J::s("priority"), J::s(["last", "high", "low"][(*p).min(2) as usize])]),
            Ev::Retrigger(r) => J::Arr(vec![J::s("retrigger"), J::Bool(*r)]),
            Ev::Restart(ch) => J::Arr(vec![J::s("restart"), J::u(*ch as u64)]),
        }
    }
    fn ev_parse(j: &J) -> Result<Ev, String> {
        let (n, a) = ev_name(j)?;
        Ok(match n {
            "byte" => {
                let s = arg(a, 0)?.as_str().ok_or("byte must be a hex string")?;
                let b = u8::from_str_radix(s.trim_start_matches("0x"), 16).map_err(|e| e.to_string())?;
                Ev::Byte(b, a.get(1).is_some())
            }
            "burst" => {
                let s = arg(a, 0)?.as_str().ok_or("byte must be a hex string")?;
                let b = u8::from_str_radix(s.trim_start_matches("0x"), 16).map_err(|e| e.to_string())?;
                Ev::Burst(b, ju64(arg(a, 1)?)? as u32, a.get(2).is_some())
            }
            "poll" => {
                if arg(a, 0)?.as_str() == Some("rising") {
                    Ev::PollRising
                } else {
                    Ev::PollFalling
                }
            }
            "priority" => Ev::Priority(match arg(a, 0)?.as_str() {
                Some("last") => 0,
                Some("high") => 1,
                _ => 2,
            }),
            "retrigger" => Ev::Retrigger(arg(a, 0)?.as_bool().unwrap_or(false)),
            "restart" => Ev::Restart(ju64(arg(a, 0)?)? as u8),
            x => return Err(format!("unknown midi event {}", x)),
        })
    }
    fn shrink_ev(e: &Ev) -> Vec<Ev> {
        match e {
            Ev::Byte(b, skip) => {
                let mut v = Vec::new();
                if *b < 0x80 {
                    for c in [0u8, 1, 64, 127] {
                        if c < *b {
                            v.push(Ev::Byte(c, *skip));
                        }
                    }
                } else if *b >= 0xF8 && *b != 0xF8 {
                    v.push(Ev::Byte(0xF8, *skip));
                }
                v
            }
            Ev::Burst(b, n, skip) if *n > 1 => vec![Ev::Burst(*b, 1, *skip), Ev::Burst(*b, n / 2, *skip), Ev::Burst(*b, n - 1, *skip)],
            Ev::Restart(ch) if *ch != 0 => vec![Ev::Restart(0)],
            _ => Vec::new(),
        }
    }
    fn shrink_cfg(c: &Cfg) -> Vec<Cfg> {
        if c.ch != 0 {
            vec![Cfg { ch: 0 }]
        } else {
            Vec::new()
        }
    }
}

// ---------------------------------------------------------------------------------------------
// sender + wire

struct Wire {
    running: u8, // sender's running status (0 = must send status)
    p_rt: f64,
    p_rt_burst: f64,
    p_running: f64,
    faults: bool,
    p_fault: f64,
    enabled: [bool; 8],
}

fn rt_byte(rng: &mut Rng) -> u8 {
    0xF8 + rng.below(8) as u8
}

impl Wire {
    fn maybe_rt(&mut self, rng: &mut Rng, t: &mut Trace<MidiEngine>) {
        while self.p_rt > 0.0 && rng.chance(self.p_rt) {
            t.ctx.fault(F_RT_INSERT);
            t.push(Ev::Byte(rt_byte(rng), true));
        }
        // a long uninterrupted run of real-time bytes (a sequencer idling on MIDI clock / active sensing)
        if self.p_rt_burst > 0.0 && rng.chance(self.p_rt_burst) {
            let n = rng.near_pow2(true);
            let b = if rng.chance(0.5) { 0xF8 } else { rt_byte(rng) };
            t.ctx.fault(F_RT_INSERT);
            if rng.chance(0.6) || n > 2000 {
                t.push(Ev::Burst(b, n as u32, true));
            } else {
                for _ in 0..n {
                    t.push(Ev::Byte(if rng.chance(0.9) { b } else { rt_byte(rng) }, true));
                }
            }
        }
    }

    /// send one channel message through the wire, with faults
    fn send(&mut self, rng: &mut Rng, t: &mut Trace<MidiEngine>, status: u8, data: &[u8]) {
        let mut bytes: Vec<u8> = Vec::with_capacity(3);
        if self.running != status || !rng.chance(self.p_running) {
            bytes.push(status);
        }
        bytes.extend_from_slice(data);
        self.running = status;
        let fault = if self.faults && rng.chance(self.p_fault) { Some(rng.below(8) as usize) } else { None };
        let fault = fault.filter(|k| self.enabled[*k]);
        let pos = rng.usize(bytes.len());
        for (i, b) in bytes.iter().enumerate() {
            self.maybe_rt(rng, t);
            if let Some(k) = fault {
                if i == pos {
                    match k {
                        0 => {
                            t.ctx.fault(F_DROP);
                            continue;
                        }
                        1 => {
                            t.ctx.fault(F_DUP);
                            t.push(Ev::Byte(*b, false));
                        }
                        2 => {
                            t.ctx.fault(F_CORRUPT);
                            t.push(Ev::Byte(rng.below(256) as u8, false));
                            self.running = 0;
                            continue;
                        }
                        3 => {
                            // a status byte in the middle of the message: legal MIDI, aborts the partial message
                            t.ctx.fault(F_STATUS_ABORT);
                            let s = 0x80 + rng.below(0x70) as u8;
                            t.push(Ev::Byte(s, false));
                            self.running = 0;
                        }
                        4 => {
                            t.ctx.fault(F_TRUNCATE);
                            for _ in 0..rng.below(4) {
                                t.push(Ev::Byte(rng.below(128) as u8, false));
                            }
                            self.running = 0;
                            return;
                        }
                        5 => {
                            t.ctx.fault(F_SYSEX);
                            t.push(Ev::Byte(0xF0, false));
                            for _ in 0..rng.below(6) {
                                self.maybe_rt(rng, t);
                                t.push(Ev::Byte(rng.below(128) as u8, false));
                            }
                            if rng.chance(0.7) {
                                t.push(Ev::Byte(0xF7, false));
                            }
                            self.running = 0;
                        }
                        6 => {
                            t.ctx.fault(F_SYSCOMMON);
                            match rng.below(6) {
                                0 => {
                                    t.push(Ev::Byte(0xF1, false));
                                    t.push(Ev::Byte(rng.below(128) as u8, false));
                                }
                                1 => {
                                    t.push(Ev::Byte(0xF2, false));
                                    t.push(Ev::Byte(rng.below(128) as u8, false));
                                    t.push(Ev::Byte(rng.below(128) as u8, false));
                                }
                                2 => {
                                    t.push(Ev::Byte(0xF3, false));
                                    t.push(Ev::Byte(rng.below(128) as u8, false));
                                }
                                3 => t.push(Ev::Byte(0xF6, false)),
                                4 => t.push(Ev::Byte(0xF4 + rng.below(2) as u8, false)),
                                _ => t.push(Ev::Byte(0xF7, false)),
                            }
                            self.running = 0;
                        }
                        _ => {
                            t.ctx.fault(F_RANDOM_BYTES);
                            for _ in 0..rng.range(1, 6) {
                                t.push(Ev::Byte(rng.below(256) as u8, false));
                            }
                            self.running = 0;
                        }
                    }
                }
            }
            t.push(Ev::Byte(*b, false));
        }
        self.maybe_rt(rng, t);
    }

    /// a complete message on another channel, between two messages; the clean twin does not see it
    fn foreign(&mut self, rng: &mut Rng, t: &mut Trace<MidiEngine>) {
        let listened = t.exec().listened();
        let ch = (listened + 1 + rng.below(15) as u8) % 16;
        let kind = 0x8 + rng.below(7) as u8;
        let status = kind << 4 | ch;
        t.ctx.fault(F_FOREIGN_MSG);
        t.push(Ev::Byte(status, true));
        let n = if matches!(kind, 0xC | 0xD) { 1 } else { 2 };
        for _ in 0..n {
            self.maybe_rt(rng, t);
            // interesting payloads: notes that are held, all-notes-off, reset controllers
            let d = match rng.below(4) {
                0 => *rng.pick(&[123u8, 121, 1, 7, 64, 65]),
                1 => t.exec().held().first().copied().unwrap_or(60),
                _ => rng.below(128) as u8,
            };
            t.push(Ev::Byte(d, true));
        }
        self.running = 0; // a well-behaved sender restates the status after switching channels
    }
}

fn gen_note(rng: &mut Rng) -> u8 {
    match rng.below(6) {
        0 => *rng.pick(&[0u8, 127, 1, 126, 60]),
        1 => 60 + rng.below(4) as u8,
        _ => rng.below(128) as u8,
    }
}
fn gen_vel(rng: &mut Rng) -> u8 {
    match rng.below(6) {
        0 => 1,
        1 => 127,
        2 => 64,
        _ => 1 + rng.below(127) as u8,
    }
}

fn random_run(rng: &mut Rng, prof: &Profile, sink: &mut Sink<MidiEngine>) {
    let focus = prof.focus;
    let chaos = prof.chaos;
    // what a channel argument above 15 listens to is C20's business: only the no-panic profile uses such arguments
    let ch_arg: u8 = if chaos { rng.below(256) as u8 } else { rng.below(16) as u8 };
    let mut t = sink.begin(Cfg { ch: ch_arg });
    // swarm configuration
    let mut wire = Wire {
        running: 0,
        p_rt: 0.0,
        p_rt_burst: 0.0,
        p_running: *rng.pick(&[0.0, 0.5, 0.9, 1.0]),
        faults: false,
        p_fault: 0.0,
        enabled: [false; 8],
    };
    let mut p_foreign = 0.0;
    let mut p_poll = 0.15;
    // weights: note_on, note_off(held), stray off, vel0 off, ANO, cc(routed), cc(any), bend, other msgs, mode, restart, random bytes,
    // controller idioms (RPN/NRPN + data entry, bank select, channel-mode messages)
    let mut w: [u32; 13] = [30, 24, 4, 6, 3, 4, 2, 3, 2, 4, 0, 0, 1];
    match focus {
        4 => {
            p_poll = 0.03;
            w = [34, 26, 5, 8, 4, 0, 0, 0, 0, 6, 0, 0, 0];
        }
        5 => {
            p_poll = *rng.pick(&[0.1, 0.3, 0.6, 0.9]);
            w = [30, 26, 6, 8, 6, 0, 0, 0, 0, 6, 0, 0, 0];
        }
        18 => {
            p_poll = 0.05;
            w = [8, 6, 1, 2, 1, 30, 14, 22, 3, 2, 1, 0, 8];
            p_foreign = *rng.pick(&[0.0, 0.05, 0.2]);
        }
        _ => {
            // C06 and chaos: everything, with wire faults
            wire.p_rt = *rng.pick(&[0.0, 0.02, 0.1, 0.3]);
            wire.p_rt_burst = if rng.chance(0.04) { 0.05 } else { 0.0 };
            wire.faults = rng.chance(0.8);
            wire.p_fault = *rng.pick(&[0.02, 0.08, 0.25]);
            for e in wire.enabled.iter_mut() {
                *e = rng.chance(0.6);
            }
            p_foreign = *rng.pick(&[0.0, 0.1, 0.3]);
            w = [22, 18, 4, 5, 3, 8, 6, 6, 6, 3, 1, if rng.chance(0.3) { 6 } else { 0 }, 4];
            if chaos {
                w[0] = 60; // mash the keyboard: more than 32 outstanding notes
                w[10] = 3;
                w[11] = 20;
            }
        }
    }
    let n_msgs = 10 + rng.usize(if prof.tier == Tier::Thorough { 150 } else { 90 });
    let mut chord_cap = *rng.pick(&[1usize, 2, 4, 8, 31, 32, 40]);
    // "mash" prologue: go straight to the edge of the 32-key list (29..33 keys down), then play around it
    if matches!(focus, 4 | 5 | 6 | 17) && rng.chance(0.08) {
        let k = rng.range(29, if focus != 4 { 34 } else { 32 }) as usize;
        let ch = t.exec().listened();
        let base = rng.below(90) as u8;
        let mut keys: Vec<u8> = (0..k as u8).map(|i| base + i).collect();
        for i in (1..keys.len()).rev() {
            let j = rng.usize(i + 1);
            keys.swap(i, j);
        }
        for n in keys {
            let v = gen_vel(rng);
            { let d__ = [n, v]; wire.send(rng, &mut t, 0x90 | ch, &d__) }
        }
        chord_cap = if focus != 4 { 40 } else { 32 };
    }
    // long-running block: a drone key held while a power-of-two-ish number of short notes is played over it
    // (this is where 8-bit press counters, age stamps and the like wrap)
    let mut drone: Option<u8> = None;
    if matches!(focus, 4 | 5 | 6 | 17) && rng.chance(0.025) {
        let ch = t.exec().listened();
        let d = gen_note(rng);
        drone = Some(d);
        { let d__ = [d, gen_vel(rng)]; wire.send(rng, &mut t, 0x90 | ch, &d__) };
        let n = rng.near_pow2(false) + rng.below(3);
        for _ in 0..n {
            if t.dead {
                break;
            }
            let mut k = gen_note(rng);
            if k == d {
                k = (d + 1) & 0x7F;
            }
            { let d__ = [k, gen_vel(rng)]; wire.send(rng, &mut t, 0x90 | ch, &d__) };
            if rng.chance(p_poll) {
                t.push(if rng.chance(0.5) { Ev::PollRising } else { Ev::PollFalling });
            }
            if rng.chance(0.5) {
                { let d__ = [k, 0]; wire.send(rng, &mut t, 0x80 | ch, &d__) };
            } else {
                { let d__ = [k, 0]; wire.send(rng, &mut t, 0x90 | ch, &d__) };
            }
        }
        w[4] = 0; // no All Notes Off while the drone is held
    }
    // long-running controller traffic (where 8-bit generation stamps, run counters and the like wrap)
    if matches!(focus, 18 | 6 | 17) && rng.chance(0.03) && !t.dead {
        let ch = t.exec().listened();
        let n = rng.near_pow2(false);
        match rng.below(3) {
            0 => {
                // controllers set, then Reset All Controllers n times with those controllers untouched
                for cc in [1u8, 7, 71, 74, 5, 65, 64] {
                    if rng.chance(0.7) {
                        { let d__ = [cc, 1 + rng.below(127) as u8]; wire.send(rng, &mut t, 0xB0 | ch, &d__) };
                    }
                }
                { let d__ = [rng.below(128) as u8, rng.below(128) as u8]; wire.send(rng, &mut t, 0xE0 | ch, &d__) };
                for _ in 0..n {
                    { let d__ = [121, 0]; wire.send(rng, &mut t, 0xB0 | ch, &d__) };
                }
            }
            1 => {
                // a 7-bit pitch wheel (LSB always 0) for a long time, then a 14-bit one
                for _ in 0..(n + rng.near_pow2(false)) {
                    { let d__ = [0, rng.below(128) as u8]; wire.send(rng, &mut t, 0xE0 | ch, &d__) };
                }
                for _ in 0..rng.range(4, 40) {
                    let v = rng.below(16384) as u16;
                    { let d__ = [(v & 0x7F) as u8, (v >> 7) as u8]; wire.send(rng, &mut t, 0xE0 | ch, &d__) };
                }
            }
            _ => {
                // one controller swept / repeated many times
                let cc = *rng.pick(&[1u8, 7, 71, 74, 5, 65, 64]);
                let same = rng.chance(0.5);
                let v0 = rng.below(128) as u8;
                for i in 0..n {
                    let v = if same { v0 } else { (i % 128) as u8 };
                    { let d__ = [cc, v]; wire.send(rng, &mut t, 0xB0 | ch, &d__) };
                }
            }
        }
    }
    for _ in 0..n_msgs {
        if t.dead {
            break;
        }
        // edge polls at any position, any multiplicity
        while rng.chance(p_poll) {
            t.push(if rng.chance(0.5) { Ev::PollRising } else { Ev::PollFalling });
        }
        if p_foreign > 0.0 && rng.chance(p_foreign) {
            wire.foreign(rng, &mut t);
            continue;
        }
        let ch = t.exec().listened();
        let held_all: Vec<u8> = t.exec().held().to_vec();
        let held: Vec<u8> = held_all.iter().copied().filter(|k| Some(*k) != drone).collect();
        let cap = t.exec().cap_exceeded();
        let mut act = rng.weighted(&w);
        // keep most runs inside the <= 32 outstanding precondition unless the run wants to exceed it
        if act == 0 && held_all.len() >= chord_cap.min(if focus != 4 { 40 } else { 32 }) && !cap {
            act = 1;
        }
        if act == 1 && held.is_empty() {
            act = 0;
        }
        match act {
            0 => {
                let n = if !held.is_empty() && rng.chance(0.12) { *rng.pick(&held) } else { gen_note(rng) };
                { let d__ = [n, gen_vel(rng)]; wire.send(rng, &mut t, 0x90 | ch, &d__) };
            }
            1 => {
                // release a held key: newest, oldest or any
                let n = match rng.below(3) {
                    0 => *held.last().unwrap(),
                    1 => held[0],
                    _ => *rng.pick(&held),
                };
                if rng.chance(0.5) {
                    { let d__ = [n, rng.below(128) as u8]; wire.send(rng, &mut t, 0x80 | ch, &d__) };
                } else {
                    { let d__ = [n, 0]; wire.send(rng, &mut t, 0x90 | ch, &d__) };
                }
            }
            2 => {
                let n = gen_note(rng);
                { let d__ = [n, rng.below(128) as u8]; wire.send(rng, &mut t, 0x80 | ch, &d__) };
            }
            3 => {
                let n = if !held.is_empty() && rng.chance(0.7) { *rng.pick(&held) } else { gen_note(rng) };
                { let d__ = [n, 0]; wire.send(rng, &mut t, 0x90 | ch, &d__) };
            }
            4 => { let d__ = [123, if rng.chance(0.8) { 0 } else { rng.below(128) as u8 }]; wire.send(rng, &mut t, 0xB0 | ch, &d__) },
            5 => {
                let cc = *rng.pick(&[1u8, 7, 71, 74, 5, 65, 64, 121]);
                let v = match rng.below(5) {
                    0 => *rng.pick(&[0u8, 127, 63, 64, 65, 1, 126]),
                    _ => rng.below(128) as u8,
                };
                { let d__ = [cc, v]; wire.send(rng, &mut t, 0xB0 | ch, &d__) };
            }
            6 => {
                // any controller number, biased to the neighbours of the routed ones
                let cc = if rng.chance(0.5) {
                    let base = *rng.pick(&[1u8, 7, 71, 74, 5, 65, 64, 121, 123]);
                    base.wrapping_add(*rng.pick(&[1u8, 255, 2, 254, 32])) & 0x7F
                } else {
                    rng.below(128) as u8
                };
                { let d__ = [cc, rng.below(128) as u8]; wire.send(rng, &mut t, 0xB0 | ch, &d__) };
            }
            7 => {
                let v: u16 = match rng.below(5) {
                    0 => *rng.pick(&[0u16, 8192, 16383, 8191, 8193, 1, 16382, 127, 128, 8064]),
                    _ => rng.below(16384) as u16,
                };
                { let d__ = [(v & 0x7F) as u8, (v >> 7) as u8]; wire.send(rng, &mut t, 0xE0 | ch, &d__) };
            }
            8 => {
                // unsupported message types on the listened channel
                match rng.below(3) {
                    0 => { let d__ = [gen_note(rng), rng.below(128) as u8]; wire.send(rng, &mut t, 0xA0 | ch, &d__) },
                    1 => { let d__ = [rng.below(128) as u8]; wire.send(rng, &mut t, 0xC0 | ch, &d__) },
                    _ => { let d__ = [rng.below(128) as u8]; wire.send(rng, &mut t, 0xD0 | ch, &d__) },
                }
            }
            9 => {
                if rng.chance(0.5) {
                    t.push(Ev::Priority(rng.below(3) as u8));
                } else {
                    t.push(Ev::Retrigger(rng.chance(0.5)));
                }
            }
            10 => {
                let c = if chaos { rng.below(256) as u8 } else { rng.below(16) as u8 };
                t.push(Ev::Restart(c));
                wire.running = 0;
            }
            12 => {
                // controller idioms every synth meets: registered / non-registered parameter + data entry (pitch-bend
                // sensitivity is RPN 0,0), bank select + program change, channel-mode messages 120..127
                match rng.below(4) {
                    0 | 1 => {
                        let (sel_msb, sel_lsb) = if rng.chance(0.7) { (101u8, 100u8) } else { (99u8, 98u8) };
                        let pm = *rng.pick(&[0u8, 0, 0, 1, 2, 127, 5]);
                        let pl = *rng.pick(&[0u8, 0, 0, 1, 2, 127, 5]);
                        let order = rng.chance(0.5);
                        if order {
                            { let d__ = [sel_msb, pm]; wire.send(rng, &mut t, 0xB0 | ch, &d__) };
                            { let d__ = [sel_lsb, pl]; wire.send(rng, &mut t, 0xB0 | ch, &d__) };
                        } else {
                            { let d__ = [sel_lsb, pl]; wire.send(rng, &mut t, 0xB0 | ch, &d__) };
                            { let d__ = [sel_msb, pm]; wire.send(rng, &mut t, 0xB0 | ch, &d__) };
                        }
                        let v = *rng.pick(&[0u8, 1, 2, 12, 24, 64, 127]);
                        { let d__ = [6, v]; wire.send(rng, &mut t, 0xB0 | ch, &d__) };
                        if rng.chance(0.5) {
                            { let d__ = [38, rng.below(128) as u8]; wire.send(rng, &mut t, 0xB0 | ch, &d__) };
                        }
                        if rng.chance(0.3) {
                            { let d__ = [*rng.pick(&[96u8, 97]), 0]; wire.send(rng, &mut t, 0xB0 | ch, &d__) };
                        }
                        if rng.chance(0.4) {
                            { let d__ = [sel_msb, 127]; wire.send(rng, &mut t, 0xB0 | ch, &d__) };
                            { let d__ = [sel_lsb, 127]; wire.send(rng, &mut t, 0xB0 | ch, &d__) };
                        }
                        // ... and then the controllers / the bend the parameter could have influenced
                        let vv: u16 = *rng.pick(&[0u16, 16383, 8192, 12288, 4096]);
                        { let d__ = [(vv & 0x7F) as u8, (vv >> 7) as u8]; wire.send(rng, &mut t, 0xE0 | ch, &d__) };
                        let cc = *rng.pick(&[1u8, 7, 71, 74, 5]);
                        { let d__ = [cc, *rng.pick(&[0u8, 127, 64])]; wire.send(rng, &mut t, 0xB0 | ch, &d__) };
                    }
                    2 if rng.chance(0.5) => {
                        // universal system-exclusive messages every DAW sends: master volume / balance, MMC transport,
                        // identity request, GM system on; device id 7F (all) or the listened channel
                        let dev = if rng.chance(0.5) { 0x7F } else { ch };
                        let lsb = rng.below(128) as u8;
                        let msb = rng.below(128) as u8;
                        let msg: Vec<u8> = match rng.below(6) {
                            0 => vec![0xF0, 0x7F, dev, 0x04, 0x01, lsb, msb, 0xF7],
                            1 => vec![0xF0, 0x7F, dev, 0x04, 0x02, lsb, msb, 0xF7],
                            2 => vec![0xF0, 0x7F, dev, 0x06, *rng.pick(&[0x01u8, 0x02, 0x03, 0x09]), 0xF7],
                            3 => vec![0xF0, 0x7E, dev, 0x06, 0x01, 0xF7],
                            4 => vec![0xF0, 0x7E, dev, 0x09, *rng.pick(&[0x01u8, 0x02, 0x03]), 0xF7],
                            _ => vec![0xF0, 0x41, dev, 0x42, 0x12, 0x40, 0x00, 0x04, lsb, msb, 0xF7],
                        };
                        t.ctx.fault(F_SYSEX);
                        for b in msg {
                            wire.maybe_rt(rng, &mut t);
                            t.push(Ev::Byte(b, false));
                        }
                        wire.running = 0;
                    }
                    2 => {
                        { let d__ = [0, rng.below(128) as u8]; wire.send(rng, &mut t, 0xB0 | ch, &d__) };
                        { let d__ = [32, rng.below(128) as u8]; wire.send(rng, &mut t, 0xB0 | ch, &d__) };
                        { let d__ = [rng.below(128) as u8]; wire.send(rng, &mut t, 0xC0 | ch, &d__) };
                    }
                    _ => {
                        let cc = *rng.pick(&[120u8, 122, 124, 125, 126, 127]);
                        { let d__ = [cc, *rng.pick(&[0u8, 127, 1])]; wire.send(rng, &mut t, 0xB0 | ch, &d__) };
                    }
                }
            }
            _ => {
                t.ctx.fault(F_RANDOM_BYTES);
                for _ in 0..rng.range(1, 12) {
                    let b = match rng.below(4) {
                        0 => 0x80 + rng.below(0x80) as u8,
                        1 => rng.below(128) as u8,
                        _ => rng.below(256) as u8,
                    };
                    t.push(Ev::Byte(b, false));
                }
                wire.running = 0;
            }
        }
    }
    // drain: release everything, poll both edges twice
    if rng.chance(0.5) && !t.dead {
        let ch = t.exec().listened();
        let held: Vec<u8> = t.exec().held().to_vec();
        for n in held {
            { let d__ = [n, 0]; wire.send(rng, &mut t, 0x80 | ch, &d__) };
        }
        for _ in 0..2 {
            t.push(Ev::PollRising);
            t.push(Ev::PollFalling);
        }
    }
    sink.end(t);
}

/// single-fault sweep for C06: a seeded short stream, one fault of every kind at every byte boundary
fn sweep_run(rng: &mut Rng, sink: &mut Sink<MidiEngine>) {
    let ch: u8 = rng.below(16) as u8;
    let other = (ch + 1 + rng.below(15) as u8) % 16;
    // base stream: 1..4 messages, running status sometimes
    let mut base: Vec<u8> = Vec::new();
    let mut running = 0u8;
    let n_msgs = rng.range(1, 4);
    let mut held: Vec<u8> = Vec::new();
    for _ in 0..n_msgs {
        let (status, data): (u8, Vec<u8>) = match rng.below(6) {
            0 | 1 => {
                let n = gen_note(rng);
                held.push(n);
                (0x90 | ch, vec![n, gen_vel(rng)])
            }
            2 => {
                let n = held.pop().unwrap_or(60);
                (0x80 | ch, vec![n, 0])
            }
            3 => (0xB0 | ch, vec![*rng.pick(&[1u8, 7, 71, 74, 5, 65, 64, 121, 123]), rng.below(128) as u8]),
            4 => (0xE0 | ch, vec![rng.below(128) as u8, rng.below(128) as u8]),
            _ => {
                let n = held.last().copied().unwrap_or(61);
                (0x90 | ch, vec![n, 0])
            }
        };
        if running != status || rng.chance(0.5) {
            base.push(status);
        }
        base.extend(data);
        running = status;
    }
    let prio = rng.below(3) as u8;
    let retr = rng.chance(0.5);
    let emit = |sink: &mut Sink<MidiEngine>, pos: usize, inject: &[(u8, bool)], drop_at: Option<usize>, fault: usize| {
        let mut t = sink.begin(Cfg { ch });
        t.ctx.probe(P_SWEEP_TRACES);
        t.ctx.fault(fault);
        t.push(Ev::Priority(prio));
        t.push(Ev::Retrigger(retr));
        for (i, b) in base.iter().enumerate() {
            if i == pos {
                for (x, s) in inject {
                    t.push(Ev::Byte(*x, *s));
                }
            }
            if drop_at == Some(i) {
                continue;
            }
            t.push(Ev::Byte(*b, false));
        }
        if pos == base.len() {
            for (x, s) in inject {
                t.push(Ev::Byte(*x, *s));
            }
        }
        t.push(Ev::PollRising);
        t.push(Ev::PollFalling);
        sink.end(t);
    };
    for pos in 0..=base.len() {
        // every real-time byte value
        for rt in 0xF8..=0xFFu8 {
            emit(sink, pos, &[(rt, true)], None, F_RT_INSERT);
        }
        emit(sink, pos, &[(0xF8, true), (0xFE, true), (0xF8, true)], None, F_RT_INSERT);
        // status byte (foreign or listened channel, every message type) aborting / preceding
        for kind in 0x8..=0xEu8 {
            emit(sink, pos, &[(kind << 4 | other, false)], None, F_STATUS_ABORT);
            emit(sink, pos, &[(kind << 4 | ch, false)], None, F_STATUS_ABORT);
        }
        // system common / exclusive
        for sc in 0xF0..=0xF7u8 {
            emit(sink, pos, &[(sc, false)], None, F_SYSCOMMON);
        }
        emit(sink, pos, &[(0xF0, false), (0x7E, false), (0x00, false), (0xF7, false)], None, F_SYSEX);
        emit(sink, pos, &[(0xF2, false), (0x10, false), (0x20, false)], None, F_SYSCOMMON);
        emit(sink, pos, &[(0xF1, false), (0x33, false)], None, F_SYSCOMMON);
        // stray data bytes / corruptions
        for d in [0u8, 60, 123, 127] {
            emit(sink, pos, &[(d, false)], None, F_CORRUPT);
        }
        if pos < base.len() {
            emit(sink, pos, &[], Some(pos), F_DROP);
            emit(sink, pos, &[(base[pos], false)], None, F_DUP);
        }
    }
    // complete foreign-channel messages at message boundaries only (twin-skippable)
    let mut dec = Decoder::default();
    let mut boundaries = vec![0usize];
    for (i, b) in base.iter().enumerate() {
        if dec.feed(*b).is_some() {
            boundaries.push(i + 1);
        }
    }
    for pos in boundaries {
        // the byte after the insertion must be a status byte for the twin comparison to stay valid
        if pos < base.len() && base[pos] < 0x80 {
            continue;
        }
        for kind in 0x8..=0xEu8 {
            let n = if matches!(kind, 0xC | 0xD) { 1 } else { 2 };
            let payloads: [[u8; 2]; 3] = [[123, 0], [held.first().copied().unwrap_or(60), 0], [121, 127]];
            for p in payloads.iter() {
                let mut inj = vec![(kind << 4 | other, true)];
                for d in p.iter().take(n) {
                    inj.push((*d, true));
                }
                emit(sink, pos, &inj, None, F_FOREIGN_MSG);
            }
        }
    }
}
