//! The one source of randomness: SplitMix64 seeding a xoshiro256** stream.
//! Hand-written so that the stream can never change underneath a recorded seed.

#[inline]
pub fn splitmix(mut z: u64) -> u64 {
    z = z.wrapping_add(0x9E37_79B9_7F4A_7C15);
    z = (z ^ (z >> 30)).wrapping_mul(0xBF58_476D_1CE4_E5B9);
    z = (z ^ (z >> 27)).wrapping_mul(0x94D0_49BB_1331_11EB);
    z ^ (z >> 31)
}

#[derive(Clone)]
pub struct Rng {
    s: [u64; 4],
}

impl Rng {
    pub fn new(seed: u64) -> Self {
        let mut z = seed;
        let mut s = [0u64; 4];
        for x in s.iter_mut() {
            z = z.wrapping_add(0x9E37_79B9_7F4A_7C15);
            *x = splitmix(z);
        }
        if s == [0; 4] {
            s[0] = 1;
        }
        Rng { s }
    }

    #[inline]
    pub fn next(&mut self) -> u64 {
        let r = self.s[1].wrapping_mul(5).rotate_left(7).wrapping_mul(9);
        let t = self.s[1] << 17;
        self.s[2] ^= self.s[0];
        self.s[3] ^= self.s[1];
        self.s[1] ^= self.s[2];
        self.s[0] ^= self.s[3];
        self.s[2] ^= t;
        self.s[3] = self.s[3].rotate_left(45);
        r
    }

    /// uniform in 0..n (n >= 1)
    #[inline]
    pub fn below(&mut self, n: u64) -> u64 {
        debug_assert!(n >= 1);
        ((self.next() as u128 * n as u128) >> 64) as u64
    }

    /// uniform in lo..=hi
    #[inline]
    pub fn range(&mut self, lo: u64, hi: u64) -> u64 {
        lo + self.below(hi - lo + 1)
    }

    #[inline]
    pub fn usize(&mut self, n: usize) -> usize {
        self.below(n as u64) as usize
    }

    /// uniform in [0,1)
    #[inline]
    pub fn f64(&mut self) -> f64 {
        (self.next() >> 11) as f64 * (1.0 / 9007199254740992.0)
    }

    #[inline]
    pub fn chance(&mut self, p: f64) -> bool {
        self.f64() < p
    }

    #[inline]
    pub fn uniform(&mut self, lo: f64, hi: f64) -> f64 {
        lo + (hi - lo) * self.f64()
    }

    /// log-uniform in [lo, hi], lo > 0
    pub fn log_uniform(&mut self, lo: f64, hi: f64) -> f64 {
        (lo.ln() + (hi.ln() - lo.ln()) * self.f64()).exp()
    }

    pub fn pick<'a, T>(&mut self, xs: &'a [T]) -> &'a T {
        &xs[self.usize(xs.len())]
    }

    /// index drawn according to integer weights
    pub fn weighted(&mut self, w: &[u32]) -> usize {
        let tot: u64 = w.iter().map(|x| *x as u64).sum();
        let mut r = self.below(tot.max(1));
        for (i, x) in w.iter().enumerate() {
            if r < *x as u64 {
                return i;
            }
            r -= *x as u64;
        }
        w.len() - 1
    }

    /// a repetition count next to a power of two (where 8- and 16-bit counters wrap); `big` allows 65 536
    pub fn near_pow2(&mut self, big: bool) -> u64 {
        let base: u64 = match self.below(if big { 12 } else { 10 }) {
            0 => 128,
            1..=5 => 256,
            6 | 7 => 512,
            8 => 1024,
            9 => 300,
            _ => 65536,
        };
        match self.below(5) {
            0 => base - 1,
            1 | 2 => base,
            3 => base + 1,
            _ => base + self.below(8),
        }
    }
}
