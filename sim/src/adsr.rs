//! Engine `adsr`: the envelope generator under a sample clock, a gate source and a panel task.
//! Decides C01 (range/shape), C02 (phase order and duration), C03 (continuity) and the ADSR part of C17.

use crate::core::*;
use crate::json::J;
use crate::real;
use crate::rng::Rng;
use synth_utils::adsr::{Adsr, Input, State};

pub struct AdsrEngine;

#[derive(Clone, Debug)]
pub struct Cfg {
    pub fs: f32,
}

#[derive(Clone, Debug)]
pub enum Ev {
    Tick(u32),
    /// n ticks during which nobody reads value() or the phase (a control-rate reader); one look afterwards
    TickBlind(u32),
    GateOn,
    GateOff,
    /// 0 attack, 1 decay, 2 sustain, 3 release; raw f32 bits handed to the From<f32> conversion
    Set(u8, u32),
    /// power cycle: Adsr::new + re-applied panel settings
    Restart,
}

// probes (first NFAULT are fault kinds)
const F_RETRIGGER: usize = 0;
const F_GATE_OFF_MID: usize = 1;
const F_REDUNDANT_GATE: usize = 2;
const F_CHATTER: usize = 3;
const F_PARAM_MID_PHASE: usize = 4;
const F_PARAM_OUT_OF_RANGE: usize = 5;
const F_PARAM_NONFINITE: usize = 6;
const F_RESTART: usize = 7;
const P_GATE_OFF_IN_DECAY: usize = 8;
const P_RETRIG_FROM_RELEASE: usize = 9;
const P_PHASE_SHORTER_THAN_TICK: usize = 10;
const P_SLOW_PHASE_TICKS: usize = 11;
const P_SUSTAIN_CHANGE_IN_DECAY: usize = 12;
const P_TIME_CHANGE_MID_PHASE: usize = 13;
const P_REACHED_SUSTAIN: usize = 14;
const P_REACHED_REST: usize = 15;
const P_GATE_BEFORE_FIRST_TICK: usize = 16;
const P_GATE_OFF_FIRST_TICK_OF_DECAY: usize = 17;
const P_TIMED_PHASES_COMPLETED: usize = 18;
const P_SWEEP_TRACES: usize = 19;
const P_RETRIG_FROM_DECAY: usize = 20;
const P_GATE_OFF_IN_ATTACK: usize = 21;
const P_BLIND_TICKS: usize = 22;

const S_ATTACK: f64 = 1.8125; // steepest slope of the documented attack curve in phase units (incl. 1024/1023 stretch)
const S_DECAY: f64 = 4.0786; // same for the decay/release curve
const ULP1: f64 = 1.1920928955078125e-7; // 2^-23
const TWO24: f64 = 16777216.0;

fn sidx(s: State) -> u32 {
    match s {
        State::AtRest => 0,
        State::Attack => 1,
        State::Decay => 2,
        State::Sustain => 3,
        State::Release => 4,
    }
}
fn timed(s: State) -> bool {
    matches!(s, State::Attack | State::Decay | State::Release)
}

/// documented clamp of a time parameter; None = NaN (statement leaves the bound open)
fn clamp_time(x: f32) -> Option<f32> {
    if x.is_nan() {
        None
    } else if x < 0.001 {
        Some(0.001)
    } else if x > 20.0 {
        Some(20.0)
    } else {
        Some(x)
    }
}
fn clamp_level(x: f32) -> Option<f32> {
    if x.is_nan() {
        None
    } else if x < 0.0 {
        Some(0.0)
    } else if x > 1.0 {
        Some(1.0)
    } else {
        Some(x)
    }
}

fn curve_attack(x: f64) -> f64 {
    (1.0 - (-4.0 * x / 3.0).exp()) / (1.0 - (-4.0f64 / 3.0).exp())
}
fn curve_decay(x: f64) -> f64 {
    ((-4.0 * x).exp() - (-4.0f64).exp()) / (1.0 - (-4.0f64).exp())
}

pub struct Exec {
    fs: f32,
    a: Adsr,
    /// model of the panel: clamped A, D, S, R; None after a NaN
    par: [Option<f32>; 4],
    st: State,
    l0_on: f32,
    l0_off: f32,
    v_prev: f32,
    /// the value most recently read, after the last tick *or* the last event: C01's monotonicity holds "between events",
    /// so an implementation may move value() at a set_input call (C03 bounds that move by the sustain change)
    v_seen: f32,
    // progress of the current timed phase
    k: u64,
    prog: f64,
    low: f64,
    low_d1: f64,
    low_d2: f64,
    phase_unknown: bool,
    ds: f64,
    s_changed: bool,
    ticks_total: u64,
    last_gate_tick: u64,
}

impl Exec {
    pub fn state(&self) -> State {
        self.st
    }
    pub fn phase_x(&self) -> f64 {
        self.a.verif_phase_bits() as f64 / TWO24
    }
    pub fn nominal_ticks(&self, st: State) -> f64 {
        let t = match st {
            State::Attack => self.par[0],
            State::Decay => self.par[1],
            State::Release => self.par[3],
            _ => None,
        };
        t.map(|t| t as f64 * self.fs as f64).unwrap_or(1.0)
    }
    fn phase_time(&self, st: State) -> Option<f32> {
        match st {
            State::Attack => self.par[0],
            State::Decay => self.par[1],
            State::Release => self.par[3],
            _ => None,
        }
    }
    fn reset_phase(&mut self) {
        self.k = 0;
        self.prog = 0.0;
        self.low = 0.0;
        self.low_d1 = 0.0;
        self.low_d2 = 0.0;
        self.phase_unknown = false;
    }

    #[inline(always)]
    fn one_tick(&mut self, ctx: &mut Ctx) {
        let st0 = self.st;
        let t0 = self.phase_time(st0);
        let fs = self.fs as f64;
        let mut dx0 = 0.0f64;
        if timed(st0) {
            match t0 {
                Some(t) => {
                    let q = 1.0 / (t as f64 * fs);
                    dx0 = q.min(1.0);
                    self.prog += q;
                    // lower bound of what the 24-bit counter must have advanced by (truncation: -1 step,
                    // f32 rounding of 1/T and of the division by fs: 2^-22 relative)
                    let c = (q * TWO24 * (1.0 - 1.0 / 4194304.0) - 1.0).max(0.0);
                    self.low += self.low_d2;
                    self.low_d2 = self.low_d1;
                    self.low_d1 = c;
                    if q > 1.0 {
                        ctx.probe(P_PHASE_SHORTER_THAN_TICK);
                    } else if q < 1e-5 {
                        ctx.probe(P_SLOW_PHASE_TICKS);
                    }
                }
                None => self.phase_unknown = true,
            }
            self.k += 1;
        }
        real!(self.a.tick());
        let v = self.a.value();
        let st1 = self.a.verif_state();
        let bits = self.a.verif_phase_bits();
        ctx.steps += 1;
        self.ticks_total += 1;

        // ---------------- C02: order and duration
        let legal = st1 == st0
            || matches!(
                (st0, st1),
                (State::Attack, State::Decay) | (State::Decay, State::Sustain) | (State::Release, State::AtRest)
            );
        ctx.check(2, "tick_transition", legal, || format!("tick moved {:?} -> {:?}", st0, st1));
        if timed(st0) && !self.phase_unknown {
            if st1 != st0 {
                let p = self.prog;
                let k = self.k;
                ctx.check(2, "phase_not_early", p >= 1.0 - 1.0 / 4194304.0, || {
                    format!("{:?} ended after {} ticks with only {:.9} of its configured duration elapsed", st0, k, p)
                });
                ctx.probe(P_TIMED_PHASES_COMPLETED);
            } else {
                let low = self.low;
                let k = self.k;
                ctx.check(2, "phase_not_late", low <= TWO24, || {
                    format!(
                        "{:?} still running after {} ticks although the counter must have advanced >= {:.0} of 2^24 two ticks ago",
                        st0, k, low
                    )
                });
                // C17: every started phase terminates (generous bound: 2.5x the counter range + 16 ticks)
                ctx.check(17, "envelope_terminates", low <= 2.5 * TWO24 || k < 16, || {
                    format!("{:?} has not ended after {} ticks (counter lower bound {:.0} of 2^24)", st0, k, low)
                });
            }
        }
        let unknown = self.phase_unknown || (st1 != st0 && timed(st1) && self.phase_time(st1).is_none());
        if st1 != st0 {
            self.reset_phase();
            if st1 == State::Sustain {
                ctx.probe(P_REACHED_SUSTAIN);
            }
            if st1 == State::AtRest {
                ctx.probe(P_REACHED_REST);
            }
            ctx.transition(sidx(st0) | 7 << 3 | sidx(st1) << 6 | ((v * 8.0) as u32 & 15) << 13);
        }

        // ---------------- C01: range and shape
        let vp = self.v_prev;
        let vs = self.v_seen;
        ctx.check(1, "range", (0.0..=1.0).contains(&v), || format!("value {:e} outside [0,1] in {:?}", v, st1));
        let s = self.par[2];
        match st1 {
            State::Attack => {
                ctx.check(1, "attack_monotone", v >= vs, || format!("attack went down: {:e} -> {:e}", vs, v));
            }
            State::Decay => {
                if st0 == State::Attack {
                    ctx.check(1, "attack_ends_at_one", v == 1.0 || vp == 1.0, || {
                        format!("attack ended without ever outputting exactly 1.0 (last attack tick {:e}, next tick {:e})", vp, v)
                    });
                } else if !self.s_changed {
                    ctx.check(1, "decay_monotone", v <= vs, || format!("decay went up: {:e} -> {:e}", vs, v));
                }
                if let Some(s) = s {
                    ctx.check(1, "decay_above_sustain", v >= s, || format!("decay value {:e} below sustain {:e}", v, s));
                }
            }
            State::Sustain => {
                if let Some(s) = s {
                    ctx.check(1, "sustain_exact", v == s, || format!("sustain outputs {:e}, level is {:e}", v, s));
                }
            }
            State::Release => {
                ctx.check(1, "release_monotone", v <= vs, || format!("release went up: {:e} -> {:e}", vs, v));
            }
            State::AtRest => {
                ctx.check(1, "rest_is_zero", v == 0.0, || format!("at rest outputs {:e}", v));
            }
        }
        if timed(st1) && ctx.on(1) {
            let x = bits as f64 / TWO24;
            let ideal = match st1 {
                State::Attack => Some(self.l0_on as f64 + (1.0 - self.l0_on as f64) * curve_attack(x)),
                State::Decay => s.map(|s| s as f64 + (1.0 - s as f64) * curve_decay(x)),
                _ => Some(self.l0_off as f64 * curve_decay(x)),
            };
            if let Some(ideal) = ideal {
                ctx.check(1, "curve_fidelity", (v as f64 - ideal).abs() <= 0.005, || {
                    format!("{:?} at phase {:.6}: value {:.6}, documented RC curve {:.6}", st1, x, v, ideal)
                });
            }
        }

        // ---------------- C03: continuity
        if !unknown && ctx.on(3) {
            let mut bound = 0.0f64;
            if timed(st0) {
                let sl = if st0 == State::Attack { S_ATTACK } else { S_DECAY };
                bound = sl * dx0;
            }
            if timed(st1) && st1 != st0 {
                if let Some(t) = self.phase_time(st1) {
                    let sl = if st1 == State::Attack { S_ATTACK } else { S_DECAY };
                    bound = bound.max(sl * (1.0 / (t as f64 * fs)).min(1.0));
                }
            }
            let lim = bound * 1.001 + self.ds + 2.0 * ULP1;
            let dv = (v as f64 - vp as f64).abs();
            ctx.check(3, "step_bound", dv <= lim, || {
                format!(
                    "{:?}->{:?}: output stepped {:e} -> {:e} (|d|={:e}) but slope x phase-step allows {:e}",
                    st0, st1, vp, v, dv, lim
                )
            });
        }

        self.st = st1;
        self.v_prev = v;
        self.v_seen = v;
        self.ds = 0.0;
        self.s_changed = false;
    }
}

impl Engine for AdsrEngine {
    const NAME: &'static str = "adsr";
    const PROBES: &'static [&'static str] = &[
        "fault_retrigger_mid_phase",
        "fault_gate_off_mid_phase",
        "fault_redundant_gate_event",
        "fault_gate_chatter_within_one_tick",
        "fault_param_change_mid_phase",
        "fault_param_out_of_range",
        "fault_param_nonfinite",
        "fault_restart",
        "gate_off_during_decay",
        "retrigger_from_release",
        "ticks_in_phase_shorter_than_one_tick",
        "slow_phase_ticks",
        "sustain_change_in_decay",
        "time_change_mid_phase",
        "reached_sustain",
        "reached_rest",
        "gate_event_before_first_tick",
        "gate_off_on_first_tick_of_decay",
        "timed_phases_completed",
        "sweep_traces",
        "retrigger_from_decay",
        "gate_off_during_attack",
        "unobserved_tick_stretches",
    ];
    const NFAULT: usize = 8;
    const COMPONENTS: &'static [(&'static str, &'static str)] = &[
        ("synth_utils::adsr::Adsr (+ phase_accumulator, lookup tables, utils)", "real code"),
        ("sample clock, gate source, panel/control task, power cycle", "simulator stub (seeded scheduler)"),
        ("phase/timing/curve reference model", "oracle written from the property statements"),
    ];
    type Cfg = Cfg;
    type Ev = Ev;
    type Exec = Exec;

    fn new_exec(cfg: &Cfg, _ctx: &mut Ctx) -> Exec {
        let a = real!(Adsr::new(cfg.fs));
        Exec {
            fs: cfg.fs,
            a,
            // the power-on settings are not part of any property: unknown until the panel task has set them
            par: [None, None, None, None],
            st: State::AtRest,
            l0_on: 0.0,
            l0_off: 0.0,
            v_prev: 0.0,
            v_seen: 0.0,
            k: 0,
            prog: 0.0,
            low: 0.0,
            low_d1: 0.0,
            low_d2: 0.0,
            phase_unknown: false,
            ds: 0.0,
            s_changed: false,
            ticks_total: 0,
            last_gate_tick: u64::MAX,
        }
    }

    fn step(ex: &mut Exec, ev: &Ev, ctx: &mut Ctx) {
        match ev {
            Ev::Tick(n) => {
                ctx.sim_ns += (*n as f64 * 1e9 / ex.fs as f64) as u64;
                for i in 0..*n {
                    ex.one_tick(ctx);
                    if i & 0xffff == 0xffff {
                        heartbeat();
                    }
                }
            }
            Ev::TickBlind(n) => {
                ctx.sim_ns += (*n as f64 * 1e9 / ex.fs as f64) as u64;
                let st0 = ex.st;
                for i in 0..*n {
                    real!(ex.a.tick());
                    if i & 0xffff == 0xffff {
                        heartbeat();
                    }
                }
                ctx.steps += *n as u64;
                ex.ticks_total += *n as u64;
                ctx.probe(P_BLIND_TICKS);
                let v = ex.a.value();
                let st1 = ex.a.verif_state();
                let bits = ex.a.verif_phase_bits();
                // what may have happened while nobody looked
                let legal = match st0 {
                    State::Sustain | State::AtRest => st1 == st0,
                    State::Attack => matches!(st1, State::Attack | State::Decay | State::Sustain),
                    State::Decay => matches!(st1, State::Decay | State::Sustain),
                    State::Release => matches!(st1, State::Release | State::AtRest),
                };
                ctx.check(2, "tick_transition", legal, || format!("{} unobserved ticks moved {:?} -> {:?}", n, st0, st1));
                // three times the nominal length is far beyond the statement's upper bound (N/(1-N/2^24)+2 <= 1.3 N + 2)
                let done = |ex: &Exec, phases: &[State]| -> Option<f64> {
                    let mut tot = 0.0;
                    for p in phases {
                        ex.phase_time(*p)?;
                        tot += ex.nominal_ticks(*p).max(1.0);
                    }
                    Some(3.0 * tot + 40.0)
                };
                let must = match st0 {
                    State::Attack => done(ex, &[State::Attack, State::Decay]).map(|b| (b, State::Sustain)),
                    State::Decay => done(ex, &[State::Decay]).map(|b| (b, State::Sustain)),
                    State::Release => done(ex, &[State::Release]).map(|b| (b, State::AtRest)),
                    _ => None,
                };
                if let Some((b, want)) = must {
                    if *n as f64 >= b && !ex.phase_unknown {
                        ctx.check(2, "phase_not_late", st1 == want, || {
                            format!("{:?} followed by {} unobserved ticks (3x the configured durations) is still in {:?}", st0, n, st1)
                        });
                        ctx.check(17, "envelope_terminates", st1 == want, || {
                            format!("{:?} followed by {} unobserved ticks is still in {:?}", st0, n, st1)
                        });
                    }
                }
                // the output at the moment of the look
                ctx.check(1, "range", (0.0..=1.0).contains(&v), || format!("value {:e} outside [0,1] in {:?}", v, st1));
                let s = ex.par[2];
                match st1 {
                    State::Sustain => {
                        if let Some(s) = s {
                            ctx.check(1, "sustain_exact", v == s, || format!("sustain outputs {:e}, level is {:e}", v, s));
                        }
                    }
                    State::AtRest => ctx.check(1, "rest_is_zero", v == 0.0, || format!("at rest outputs {:e}", v)),
                    _ => {}
                }
                if timed(st1) && st1 == st0 && ctx.on(1) {
                    let x = bits as f64 / TWO24;
                    let ideal = match st1 {
                        State::Attack => Some(ex.l0_on as f64 + (1.0 - ex.l0_on as f64) * curve_attack(x)),
                        State::Decay => s.map(|s| s as f64 + (1.0 - s as f64) * curve_decay(x)),
                        _ => Some(ex.l0_off as f64 * curve_decay(x)),
                    };
                    if let Some(ideal) = ideal {
                        ctx.check(1, "curve_fidelity", (v as f64 - ideal).abs() <= 0.005, || {
                            format!("{:?} at phase {:.6} after unobserved ticks: value {:.6}, documented RC curve {:.6}", st1, x, v, ideal)
                        });
                    }
                }
                // resynchronise: how long the current phase has been running is not known any more
                if st1 != st0 {
                    ex.reset_phase();
                }
                if timed(st1) {
                    ex.phase_unknown = true;
                }
                ex.st = st1;
                ex.v_prev = v;
                ex.v_seen = v;
                ex.ds = 0.0;
                ex.s_changed = false;
                ctx.transition(sidx(st0) | 6 << 3 | sidx(st1) << 6 | ((*n).min(63)) << 13);
            }
            Ev::GateOn | Ev::GateOff => {
                let on = matches!(ev, Ev::GateOn);
                let st0 = ex.st;
                let v0 = ex.a.value();
                let bits0 = ex.a.verif_phase_bits();
                if on {
                    real!(ex.a.gate_on());
                } else {
                    real!(ex.a.gate_off());
                }
                let st1 = ex.a.verif_state();
                let bits1 = ex.a.verif_phase_bits();
                let honoured = if on { st0 != State::Attack } else { matches!(st0, State::Attack | State::Decay | State::Sustain) };
                if honoured {
                    let want = if on { State::Attack } else { State::Release };
                    ctx.check(2, "gate_starts_phase", st1 == want && bits1 == 0, || {
                        format!("gate_{} in {:?} gave {:?} at counter {}", if on { "on" } else { "off" }, st0, st1, bits1)
                    });
                } else {
                    ctx.check(2, "gate_ignored", st1 == st0 && bits1 == bits0, || {
                        format!(
                            "gate_{} in {:?} must be ignored but gave {:?}, counter {} -> {}",
                            if on { "on" } else { "off" },
                            st0,
                            st1,
                            bits0,
                            bits1
                        )
                    });
                }
                // probes
                if ex.ticks_total == 0 {
                    ctx.probe(P_GATE_BEFORE_FIRST_TICK);
                }
                if ex.last_gate_tick == ex.ticks_total {
                    ctx.fault(F_CHATTER);
                }
                ex.last_gate_tick = ex.ticks_total;
                if !honoured {
                    ctx.fault(F_REDUNDANT_GATE);
                } else if on && st0 != State::AtRest {
                    ctx.fault(F_RETRIGGER);
                    if st0 == State::Release {
                        ctx.probe(P_RETRIG_FROM_RELEASE);
                    }
                    if st0 == State::Decay {
                        ctx.probe(P_RETRIG_FROM_DECAY);
                    }
                } else if !on && timed(st0) {
                    ctx.fault(F_GATE_OFF_MID);
                    if st0 == State::Decay {
                        ctx.probe(P_GATE_OFF_IN_DECAY);
                        if ex.k <= 1 {
                            ctx.probe(P_GATE_OFF_FIRST_TICK_OF_DECAY);
                        }
                    }
                    if st0 == State::Attack {
                        ctx.probe(P_GATE_OFF_IN_ATTACK);
                    }
                }
                ctx.transition(sidx(st0) | (if on { 1 } else { 2 }) << 3 | sidx(st1) << 6 | (bits0 >> 20) << 9 | ((v0 * 8.0) as u32 & 15) << 13);
                // follow the observed state (so that a C02 defect does not cascade into C01/C03)
                if st1 != st0 || (honoured && bits1 == 0) {
                    if st1 == State::Attack && (st0 != State::Attack) {
                        ex.l0_on = v0;
                    }
                    if st1 == State::Release && st0 != State::Release {
                        ex.l0_off = v0;
                    }
                    ex.reset_phase();
                }
                ex.st = st1;
                ex.v_seen = ex.a.value();
            }
            Ev::Set(which, bits) => {
                let x = f32::from_bits(*bits);
                let st0 = ex.st;
                let bits0 = ex.a.verif_phase_bits();
                let inp = match which {
                    0 => Input::Attack(real!(x.into())),
                    1 => Input::Decay(real!(x.into())),
                    2 => Input::Sustain(real!(x.into())),
                    _ => Input::Release(real!(x.into())),
                };
                real!(ex.a.set_input(inp));
                let st1 = ex.a.verif_state();
                let bits1 = ex.a.verif_phase_bits();
                ctx.check(2, "set_input_keeps_phase", st1 == st0 && (bits1 as i64 - bits0 as i64).abs() <= 2, || {
                    format!("set_input moved {:?}@{} to {:?}@{}", st0, bits0, st1, bits1)
                });
                let w = (*which).min(3) as usize;
                let new = if w == 2 { clamp_level(x) } else { clamp_time(x) };
                if !x.is_finite() {
                    ctx.fault(F_PARAM_NONFINITE);
                } else if new.map(|n| n != x).unwrap_or(false) {
                    ctx.fault(F_PARAM_OUT_OF_RANGE);
                }
                let active = match st0 {
                    State::Attack => 0,
                    State::Decay => 1,
                    State::Release => 3,
                    _ => 9,
                };
                if w == active {
                    ctx.fault(F_PARAM_MID_PHASE);
                    ctx.probe(P_TIME_CHANGE_MID_PHASE);
                }
                if w == 2 {
                    if matches!(st0, State::Decay | State::Sustain) {
                        ctx.fault(F_PARAM_MID_PHASE);
                        if st0 == State::Decay {
                            ctx.probe(P_SUSTAIN_CHANGE_IN_DECAY);
                        }
                    }
                    match (ex.par[2], new) {
                        (Some(o), Some(n)) => {
                            ex.ds += (n as f64 - o as f64).abs();
                            // a lowered sustain level can only pull a decaying output further down
                            if n > o {
                                ex.s_changed = true;
                            }
                        }
                        _ => {
                            ex.ds += 1.0;
                            ex.s_changed = true;
                        }
                    }
                }
                if new.is_none() && w == active {
                    ex.phase_unknown = true;
                }
                ex.par[w] = new;
                ctx.transition(sidx(st0) | (3 + w as u32) << 3 | sidx(st1) << 6 | (bits0 >> 20) << 9);
                ex.st = st1;
                ex.v_seen = ex.a.value();
            }
            Ev::Restart => {
                ctx.fault(F_RESTART);
                ex.a = real!(Adsr::new(ex.fs));
                // configuration is "durable": the panel task re-applies the settings it knows
                for w in 0..4 {
                    match ex.par[w] {
                        Some(p) => {
                            let inp = match w {
                                0 => Input::Attack(real!(p.into())),
                                1 => Input::Decay(real!(p.into())),
                                2 => Input::Sustain(real!(p.into())),
                                _ => Input::Release(real!(p.into())),
                            };
                            real!(ex.a.set_input(inp));
                        }
                        None => {}
                    }
                }
                let st1 = ex.a.verif_state();
                let v = ex.a.value();
                ctx.check(2, "restart_at_rest", st1 == State::AtRest, || format!("new envelope starts in {:?}", st1));
                ctx.check(1, "restart_zero", v == 0.0, || format!("new envelope outputs {:e}", v));
                ctx.transition(sidx(ex.st) | 7 << 3 | sidx(st1) << 6 | 1 << 20);
                ex.st = st1;
                ex.v_prev = v;
                ex.v_seen = v;
                ex.ds = 0.0;
                ex.s_changed = false;
                ex.reset_phase();
            }
        }
    }

    fn finish(_ex: &mut Exec, _ctx: &mut Ctx) {}

    fn run(rng: &mut Rng, prof: &Profile, run: u64, sink: &mut Sink<Self>) {
        if prof.chaos {
            chaos_run(rng, prof, sink);
        } else if run == 3 && prof.tier == Tier::Thorough {
            random_run_m(rng, prof, sink, true);
        } else if run % 8 == 7 {
            sweep_run(rng, prof, sink);
        } else {
            random_run(rng, prof, sink);
        }
    }

    fn cfg_json(c: &Cfg) -> J {
        J::obj(vec![("sample_rate_hz", f32j(c.fs)), ("sample_rate_hz_readable", J::Num(c.fs as f64))])
    }
    fn cfg_parse(j: &J) -> Result<Cfg, String> {
        Ok(Cfg { fs: jf32(j.get("sample_rate_hz").ok_or("no sample_rate_hz")?)? })
    }
    fn ev_json(e: &Ev) -> J {
        match e {
            Ev::Tick(n) => J::Arr(vec![J::s("tick"), J::u(*n as u64)]),
            Ev::TickBlind(n) => J::Arr(vec![J::s("tick_unobserved"), J::u(*n as u64)]),
            Ev::GateOn => J::Arr(vec![J::s("gate_on")]),
            Ev::GateOff => J::Arr(vec![J::s("gate_off")]),
            Ev::Set(w, b) => J::Arr(vec![
                J::s("set"),
                J::s(["attack", "decay", "sustain", "release"][(*w).min(3) as usize]),
                J::hex32(*b),
                J::Num(f32::from_bits(*b) as f64),
            ]),
            Ev::Restart => J::Arr(vec![J::s("restart")]),
        }
    }
    fn ev_parse(j: &J) -> Result<Ev, String> {
        let (n, a) = ev_name(j)?;
        Ok(match n {
            "tick" => Ev::Tick(ju64(arg(a, 0)?)? as u32),
            "tick_unobserved" => Ev::TickBlind(ju64(arg(a, 0)?)? as u32),
            "gate_on" => Ev::GateOn,
            "gate_off" => Ev::GateOff,
            "set" => {
                let w = match arg(a, 0)?.as_str().unwrap_or("") {
                    "attack" => 0,
                    "decay" => 1,
                    "sustain" => 2,
                    "release" => 3,
                    x => return Err(format!("unknown input {}", x)),
                };
                Ev::Set(w, arg(a, 1)?.as_hex32().ok_or("bad bits")?)
            }
            "restart" => Ev::Restart,
            x => return Err(format!("unknown adsr event {}", x)),
        })
    }
    fn shrink_ev(e: &Ev) -> Vec<Ev> {
        match e {
            Ev::Tick(n) => {
                let mut v = Vec::new();
                if *n > 1 {
                    v.push(Ev::Tick(1));
                    v.push(Ev::Tick(n / 2));
                    v.push(Ev::Tick(n - 1));
                }
                v
            }
            Ev::TickBlind(n) => {
                let mut v = vec![Ev::Tick(*n)];
                if *n > 1 {
                    v.push(Ev::TickBlind(n / 2));
                    v.push(Ev::TickBlind(n - 1));
                }
                v
            }
            Ev::Set(w, b) => {
                let x = f32::from_bits(*b);
                let mut cands = shrink_f32(x);
                if *w != 2 {
                    cands.insert(0, 0.01);
                }
                cands.into_iter().map(|c| Ev::Set(*w, c.to_bits())).collect()
            }
            _ => Vec::new(),
        }
    }
    fn shrink_cfg(c: &Cfg) -> Vec<Cfg> {
        [1000.0f32, 100.0, 48000.0].iter().filter(|f| **f != c.fs).map(|f| Cfg { fs: *f }).collect()
    }
    fn merge(a: &Ev, b: &Ev) -> Option<Ev> {
        match (a, b) {
            (Ev::Tick(x), Ev::Tick(y)) => x.checked_add(*y).map(Ev::Tick),
            _ => None,
        }
    }
}

// ---------------------------------------------------------------------------------------------
// generators

fn fs_specials() -> Vec<f32> {
    COMMON_RATES.iter().copied().filter(|f| *f <= 192000.0).collect()
}

fn gen_fs(rng: &mut Rng) -> f32 {
    if rng.chance(0.5) {
        *rng.pick(&fs_specials())
    } else {
        rng.log_uniform(100.0, 192000.0) as f32
    }
}

/// a time value: around `n_target` ticks, with specials and out-of-range / non-finite glitches
fn gen_time(rng: &mut Rng, fs: f32, n_target: f64, glitch: bool) -> f32 {
    let r = rng.below(100);
    if glitch && r < 6 {
        return *rng.pick(&[0.0f32, -1.0, -0.0, 1e-9, 0.0009999, 20.000002, 25.0, 1e9, f32::MAX, f32::MIN, f32::MIN_POSITIVE, 1e-40]);
    }
    if glitch && r < 9 {
        return *rng.pick(&[f32::INFINITY, f32::NEG_INFINITY, f32::NAN]);
    }
    if r < 22 {
        let k = *rng.pick(&[0.5f64, 1.0, 2.0, 3.0, 128.0, 1000.0]);
        return (k / fs as f64) as f32;
    }
    if r < 30 {
        return *rng.pick(&[0.001f32, 0.002, 0.01, 0.1, 1.0, 20.0]);
    }
    let n = n_target * rng.log_uniform(0.1, 10.0);
    (n / fs as f64) as f32
}

fn gen_level(rng: &mut Rng, glitch: bool) -> f32 {
    let r = rng.below(100);
    if glitch && r < 6 {
        return *rng.pick(&[-0.0f32, -0.5, 1.0000001, 2.0, -1e-30, 1e30, f32::MAX, f32::MIN, 1e-40]);
    }
    if glitch && r < 9 {
        return *rng.pick(&[f32::INFINITY, f32::NEG_INFINITY, f32::NAN]);
    }
    if r < 25 {
        return *rng.pick(&[0.0f32, 1.0, 0.5, 0.1, 0.9, 0.999, 0.001]);
    }
    rng.f64() as f32
}

fn random_run(rng: &mut Rng, prof: &Profile, sink: &mut Sink<AdsrEngine>) {
    random_run_m(rng, prof, sink, false)
}

fn random_run_m(rng: &mut Rng, prof: &Profile, sink: &mut Sink<AdsrEngine>, marathon: bool) {
    let fs = gen_fs(rng);
    let slow = rng.chance(if prof.tier == Tier::Thorough { 0.12 } else { 0.06 });
    let n_target = if slow { rng.log_uniform(3e4, 4e6) } else { rng.log_uniform(0.3, 3000.0) };
    let budget: u64 = if slow {
        (n_target * rng.uniform(1.5, 4.0)) as u64
    } else {
        ((n_target * 30.0) as u64).clamp(300, 60_000)
    };
    let glitch = rng.chance(0.6);
    let style = rng.below(4); // 0 periodic, 1 uniform pick, 2 bursty, 3 targeted
    // in a sixth of the runs value() and the phase are read only now and then (control-rate reader)
    let blind = rng.chance(0.16);
    let max_events = 40 + rng.usize(260);
    let mut t = sink.begin(Cfg { fs });
    // initial panel settings
    for w in 0..4u8 {
        {
            let x = if w == 2 { gen_level(rng, glitch) } else { gen_time(rng, fs, n_target, glitch) };
            t.push(Ev::Set(w, x.to_bits()));
        }
    }
    let mut gate = false;
    let mut last_state = State::AtRest;
    if prof.tier == Tier::Thorough && marathon {
        // a day of uptime: more ticks than a 32-bit sample counter holds, spent idle, then the instrument is played
        if rng.chance(0.5) {
            t.push(Ev::GateOn);
            let need = (t.exec().nominal_ticks(State::Attack) + t.exec().nominal_ticks(State::Decay)) * 1.4 + 16.0;
            t.push(Ev::Tick(need.min(3.0e6) as u32));
        }
        t.push(Ev::TickBlind(u32::MAX - rng.below(1000) as u32));
        t.push(Ev::TickBlind(rng.range(1, 3000) as u32));
        t.push(Ev::GateOff);
        t.push(Ev::Tick(rng.range(1, 200) as u32));
        t.push(Ev::GateOn);
    }
    // long-running blocks (where narrow counters wrap), in a small share of the runs
    if rng.chance(0.02) {
        match rng.below(3) {
            0 => {
                // a power-of-two-ish number of complete short notes
                let n = rng.near_pow2(false);
                let k = rng.range(1, 3) as u32;
                for _ in 0..n {
                    t.push(Ev::GateOn);
                    t.push(Ev::Tick(k));
                    t.push(Ev::GateOff);
                    t.push(Ev::Tick(k));
                }
            }
            1 => {
                // a long idle stretch in sustain, then the release
                t.push(Ev::GateOn);
                let need = (t.exec().nominal_ticks(State::Attack) + t.exec().nominal_ticks(State::Decay)) as u64 + 8;
                if need < 200_000 {
                    t.push(Ev::Tick(need as u32));
                    t.push(Ev::Tick(65_536 + rng.below(16) as u32));
                    t.push(Ev::GateOff);
                }
            }
            _ => {
                // the panel task writing the same or alternating settings many times between two ticks
                t.push(Ev::GateOn);
                t.push(Ev::Tick(rng.range(1, 4) as u32));
                let n = rng.near_pow2(false);
                let a = gen_time(rng, fs, n_target, false);
                let b = gen_time(rng, fs, n_target, false);
                let w = *rng.pick(&[0u8, 1, 3]);
                for i in 0..n {
                    t.push(Ev::Set(w, if i % 2 == 0 { a } else { b }.to_bits()));
                }
            }
        }
    }
    let budget = budget + t.ctx.steps;
    let max_events = max_events + t.evs.len();
    while !t.dead && t.ctx.steps < budget && t.evs.len() < max_events {
        let st = t.exec().state();
        let changed = st != last_state;
        last_state = st;
        // targeted style: hit the instants right after a state change
        if style == 3 && changed && rng.chance(0.6) {
            let off = rng.below(3) as u32;
            if off > 0 {
                t.push(Ev::Tick(off));
            }
            match rng.below(4) {
                0 => {
                    t.push(Ev::GateOff);
                    gate = false;
                }
                1 => {
                    t.push(Ev::GateOn);
                    gate = true;
                }
                2 => t.push(Ev::Set(2, gen_level(rng, glitch).to_bits())),
                _ => {
                    let w = *rng.pick(&[0u8, 1, 3]);
                    t.push(Ev::Set(w, gen_time(rng, fs, n_target, glitch).to_bits()));
                }
            }
            continue;
        }
        let w_tick = if style == 2 { 30 } else { 50 };
        let act = rng.weighted(&[w_tick, 14, 14, 16, 1, 3, 3]);
        match act {
            0 => {
                let ex = t.exec();
                let n_cur = ex.nominal_ticks(st).max(1.0);
                let rem = if timed(st) { ((1.0 - ex.phase_x()) * n_cur).max(0.0) } else { n_cur };
                let n = match rng.below(10) {
                    0 => 1.0,
                    1 => 2.0,
                    2 => rng.range(1, 8) as f64,
                    3 => rem * rng.f64(),
                    4 => rem - 1.0,
                    5 => rem,
                    6 => rem + 1.0,
                    7 => rem + rng.f64() * 0.2 * n_cur + 2.0,
                    8 => rem * 0.5,
                    _ => n_cur * rng.uniform(0.0, 2.0),
                };
                let left = budget.saturating_sub(t.ctx.steps).max(1);
                let n = (n.max(1.0) as u64).min(left).min(u32::MAX as u64) as u32;
                if blind && rng.chance(0.5) {
                    t.push(Ev::TickBlind(n));
                } else {
                    t.push(Ev::Tick(n));
                }
            }
            1 => {
                t.push(Ev::GateOn);
                gate = true;
            }
            2 => {
                t.push(Ev::GateOff);
                gate = false;
            }
            3 => {
                let w = rng.below(4) as u8;
                let x = if w == 2 { gen_level(rng, glitch) } else { gen_time(rng, fs, n_target, glitch) };
                t.push(Ev::Set(w, x.to_bits()));
            }
            4 => t.push(Ev::Restart),
            6 => {
                // a smoothed pot handed to the envelope every tick: many tiny steps in one direction
                let w = rng.below(4) as u8;
                let k = rng.range(20, 300);
                if w == 2 {
                    let mut x = gen_level(rng, false) as f64;
                    let d = rng.log_uniform(1e-7, 1e-3) * if rng.chance(0.5) { -1.0 } else { 1.0 };
                    for _ in 0..k {
                        x = (x + d).clamp(0.0, 1.0);
                        t.push(Ev::Set(2, (x as f32).to_bits()));
                        t.push(Ev::Tick(1));
                    }
                } else {
                    let mut x = gen_time(rng, fs, n_target, false) as f64;
                    let r = 1.0 + rng.log_uniform(1e-6, 1e-2) * if rng.chance(0.5) { -1.0 } else { 1.0 };
                    for _ in 0..k {
                        x = (x * r).clamp(0.001, 20.0);
                        t.push(Ev::Set(w, (x as f32).to_bits()));
                        t.push(Ev::Tick(rng.range(1, 2) as u32));
                    }
                }
            }
            _ => {
                // gate chatter: several gate events within one tick
                for _ in 0..rng.range(2, 5) {
                    gate = !gate;
                    t.push(if gate { Ev::GateOn } else { Ev::GateOff });
                }
            }
        }
        if style == 2 && rng.chance(0.3) {
            // bursty: the same actor again
            for _ in 0..rng.range(1, 4) {
                let x = gen_level(rng, glitch);
                t.push(Ev::Set(2, x.to_bits()));
                t.push(Ev::Tick(rng.range(1, 3) as u32));
            }
        }
    }
    sink.end(t);
}

/// single-fault sweep: one seeded short envelope, one injected event at every tick offset
fn sweep_run(rng: &mut Rng, _prof: &Profile, sink: &mut Sink<AdsrEngine>) {
    let fs = gen_fs(rng);
    let na = rng.range(1, 24) as f64;
    let nd = rng.range(1, 24) as f64;
    let nr = rng.range(1, 24) as f64;
    let hold = rng.range(0, 6);
    let a = (na * rng.uniform(0.9, 1.1) / fs as f64) as f32;
    let d = (nd * rng.uniform(0.9, 1.1) / fs as f64) as f32;
    let r = (nr * rng.uniform(0.9, 1.1) / fs as f64) as f32;
    let s = gen_level(rng, false);
    let total = (na + nd) as u64 + hold + 4;
    let tail = nr as u64 + 4;
    let alt_level = gen_level(rng, false);
    let alt_time = (rng.range(1, 40) as f64 / fs as f64) as f32;
    for off in 0..=total + tail {
        for kind in 0..5u32 {
            let mut t = sink.begin(Cfg { fs });
            t.ctx.probe(P_SWEEP_TRACES);
            t.push(Ev::Set(0, a.to_bits()));
            t.push(Ev::Set(1, d.to_bits()));
            t.push(Ev::Set(2, s.to_bits()));
            t.push(Ev::Set(3, r.to_bits()));
            t.push(Ev::GateOn);
            let inject = |t: &mut Trace<AdsrEngine>| match kind {
                0 => t.push(Ev::GateOff),
                1 => t.push(Ev::GateOn),
                2 => t.push(Ev::Set(2, alt_level.to_bits())),
                3 => {
                    let w = match t.exec().state() {
                        State::Attack => 0,
                        State::Decay => 1,
                        _ => 3,
                    };
                    t.push(Ev::Set(w, alt_time.to_bits()))
                }
                _ => {
                    t.push(Ev::GateOff);
                    t.push(Ev::GateOn);
                }
            };
            if off <= total {
                if off > 0 {
                    t.push(Ev::Tick(off as u32));
                }
                inject(&mut t);
                if total > off {
                    t.push(Ev::Tick((total - off) as u32));
                }
                t.push(Ev::GateOff);
                t.push(Ev::Tick(tail as u32 + 42));
            } else {
                t.push(Ev::Tick(total as u32));
                t.push(Ev::GateOff);
                let o2 = off - total;
                t.push(Ev::Tick(o2 as u32));
                inject(&mut t);
                t.push(Ev::Tick(tail as u32 + 42));
            }
            sink.end(t);
        }
    }
}

/// C17 chaos profile: legal extremes of every argument, arbitrary call order, long tick-only stretches
fn chaos_run(rng: &mut Rng, _prof: &Profile, sink: &mut Sink<AdsrEngine>) {
    let fs = match rng.below(4) {
        0 => 100.0,
        1 => 192000.0,
        2 => *rng.pick(&fs_specials()),
        _ => rng.log_uniform(100.0, 192000.0) as f32,
    };
    let finite_extreme = |rng: &mut Rng| -> f32 {
        match rng.below(8) {
            0 => *rng.pick(&[f32::MAX, f32::MIN, f32::MIN_POSITIVE, -f32::MIN_POSITIVE, 1e-45, -1e-45, 0.0, -0.0]),
            1 => f32::from_bits(rng.next() as u32 & 0x7f7f_ffff | ((rng.next() as u32 & 1) << 31)), // any finite
            2 => *rng.pick(&[0.001f32, 20.0, 0.0009999999, 20.000002, 1.0]),
            3 => (rng.range(1, 4) as f64 * 0.5 / fs as f64) as f32,
            _ => rng.log_uniform(1e-4, 30.0) as f32,
        }
    };
    let big = rng.chance(0.05);
    let budget: u64 = if big { 12_000_000 } else { 40_000 };
    let mut t = sink.begin(Cfg { fs });
    let max_events = 30 + rng.usize(120);
    for w in 0..4u8 {
        let x = finite_extreme(rng);
        t.push(Ev::Set(w, x.to_bits()));
    }
    while !t.dead && t.ctx.steps < budget && t.evs.len() < max_events {
        match rng.weighted(&[30, 14, 12, 30, 2, 12]) {
            0 => {
                let n = match rng.below(4) {
                    0 => 1,
                    1 => rng.range(1, 50),
                    2 => rng.range(50, 5000),
                    _ => rng.range(1, 300),
                };
                t.push(Ev::Tick(n as u32));
            }
            1 => t.push(Ev::GateOn),
            2 => t.push(Ev::GateOff),
            3 => {
                let w = rng.below(4) as u8;
                let x = finite_extreme(rng);
                t.push(Ev::Set(w, x.to_bits()));
            }
            4 => t.push(Ev::Restart),
            _ => {
                // liveness stretch: gate-on followed by ticks only must reach sustain, gate-off must reach rest
                t.push(Ev::GateOn);
                let ex = t.exec();
                let need = |n: f64| (n / (1.0 - (n / TWO24).min(0.9)) + 3.0).max(3.0);
                let na = need(ex.nominal_ticks(State::Attack));
                let nd = need(ex.nominal_ticks(State::Decay));
                let nr = need(ex.nominal_ticks(State::Release));
                let left = budget.saturating_sub(t.ctx.steps) as f64;
                if 3.0 * (na + nd + nr) < left {
                    // three times the statement's bound: the executor's `envelope_terminates` oracle
                    // (2.5x the counter range) fires inside these ticks if a phase does not end
                    t.push(Ev::Tick((3.0 * (na + nd)) as u32 + 20));
                    t.push(Ev::GateOff);
                    t.push(Ev::Tick((3.0 * nr) as u32 + 20));
                } else {
                    t.push(Ev::Tick(rng.range(1, 2000) as u32));
                }
            }
        }
    }
    sink.end(t);
}
