//! Engine `ribbon`: a finger + ADC, a sample clock and an edge poller around the real `RibbonController<N>`.
//! Decides C15 (press detection) and C16 (position value) + part of C17.

use crate::core::*;
use crate::json::J;
use crate::real;
use crate::rng::Rng;
use synth_utils::ribbon_controller::{sample_rate_to_capacity, RibbonController};

pub struct RibbonEngine;

/// object-safe view of RibbonController<N> so that one engine serves the whole menu of capacities
trait Rib {
    fn poll(&mut self, x: f32);
    fn value(&self) -> f32;
    fn pressing(&self) -> bool;
    fn just_pressed(&mut self) -> bool;
    fn just_released(&mut self) -> bool;
}
impl<const N: usize> Rib for RibbonController<N> {
    fn poll(&mut self, x: f32) {
        RibbonController::poll(self, x)
    }
    fn value(&self) -> f32 {
        RibbonController::value(self)
    }
    fn pressing(&self) -> bool {
        self.finger_is_pressing()
    }
    fn just_pressed(&mut self) -> bool {
        self.finger_just_pressed()
    }
    fn just_released(&mut self) -> bool {
        self.finger_just_released()
    }
}

pub const FS_MENU: [u32; 22] = [
    100, 250, 999, 1000, 1500, 2000, 4000, 8000, 10000, 22050, 44100, 48000, 96000, 192000, 500, 667, 3000, 16000, 32000, 88200,
    176400, 133,
];

macro_rules! mk {
    ($fs:expr, $cfg:expr) => {
        Box::new(RibbonController::<{ sample_rate_to_capacity($fs) }>::new($fs as f32, $cfg.softpot, $cfg.dropper, $cfg.pullup))
            as Box<dyn Rib>
    };
}

fn make(cfg: &Cfg) -> Box<dyn Rib> {
    real!(match cfg.fs_idx {
        0 => mk!(100, cfg),
        1 => mk!(250, cfg),
        2 => mk!(999, cfg),
        3 => mk!(1000, cfg),
        4 => mk!(1500, cfg),
        5 => mk!(2000, cfg),
        6 => mk!(4000, cfg),
        7 => mk!(8000, cfg),
        8 => mk!(10000, cfg),
        9 => mk!(22050, cfg),
        10 => mk!(44100, cfg),
        11 => mk!(48000, cfg),
        12 => mk!(96000, cfg),
        13 => mk!(192000, cfg),
        14 => mk!(500, cfg),
        15 => mk!(667, cfg),
        16 => mk!(3000, cfg),
        17 => mk!(16000, cfg),
        18 => mk!(32000, cfg),
        19 => mk!(88200, cfg),
        20 => mk!(176400, cfg),
        _ => mk!(133, cfg),
    })
}

#[derive(Clone, Debug)]
pub struct Cfg {
    pub fs_idx: usize,
    pub softpot: f32,
    pub dropper: f32,
    pub pullup: f32,
}

impl Cfg {
    pub fn fs(&self) -> u32 {
        FS_MENU[self.fs_idx.min(FS_MENU.len() - 1)]
    }
    pub fn capacity(&self) -> usize {
        sample_rate_to_capacity(self.fs())
    }
    pub fn boundary(&self) -> f32 {
        1.0 - (self.dropper / (self.dropper + self.softpot))
    }
    pub fn discard(&self) -> usize {
        (self.fs() as u64 * 2000 / 1_000_000) as usize
    }
}

#[derive(Clone, Debug)]
pub enum Ev {
    /// poll(x) n times
    Samples(u32, u32),
    /// poll(x) n times with no getter called in between (the observer is not looking); one look afterwards
    SamplesBlind(u32, u32),
    PollPressed,
    PollReleased,
    /// the observer reads finger_is_pressing() and value() (after SamplesBlind)
    Look,
    /// perturbation twins evaluated at this instant: 0 fresh-press twin, 1 newest-samples twin, 2 raised-sample twin
    Twin(u8, u32),
    Restart,
    /// the buffer-size helper called with any sample rate of the documented range (C17)
    Capacity(u32),
}

const F_TAP_SHORTER_THAN_CAPTURE: usize = 0;
const F_BOUNCE_INSIDE_PRESS: usize = 1;
const F_GLITCH_WHILE_LIFTED: usize = 2;
const F_RESTART: usize = 3;
const F_POSITION_JUMP_INSIDE_PRESS: usize = 4;
const P_PRESSES_REPORTED: usize = 5;
const P_TAP_THEN_PRESS: usize = 6;
const P_SECOND_PRESS: usize = 7;
const P_VALUE_CHECKS: usize = 8;
const P_TWIN_FRESH: usize = 9;
const P_TWIN_NEWEST: usize = 10;
const P_TWIN_RAISED: usize = 11;
const P_AMBIGUOUS_BOUNDARY: usize = 12;
const P_POLL_TRUE_PRESSED: usize = 13;
const P_POLL_TRUE_RELEASED: usize = 14;
const P_RUN_EXACTLY_L_MINUS_1: usize = 15;
const P_RETAINED_VALUE_CHECKS: usize = 16;
const P_SWEEP_TRACES: usize = 17;
const P_BUFFER_WRAPPED_IN_PRESS: usize = 18;
const P_BLIND_SAMPLES: usize = 19;
const P_MEASURED_CORRECTION_USED: usize = 20;

pub struct Exec {
    cfg: Cfg,
    r: Box<dyn Rib>,
    b: f32,
    cap: usize,
    discard: usize,
    e: f64,
    l_need: usize,
    run: Vec<f32>,
    prefix: Vec<f64>,
    pressing: bool,
    jp: bool,
    jr: bool,
    /// changes of finger_is_pressing() not yet answered with `true` (upper bound on how many `true`s may still come)
    jp_unread: u32,
    jr_unread: u32,
    retained: u32,
    ambiguous: bool,
    presses: u32,
    short_runs_since_press: u32,
    /// set when a press ended while nobody was looking: (value the press ended on, tolerance)
    lift_expect: Option<(f64, f64, f64, f64)>,
}

impl Exec {
    pub fn l_need(&self) -> usize {
        self.l_need
    }
    pub fn run_len(&self) -> usize {
        self.run.len()
    }
    pub fn is_pressing(&self) -> bool {
        self.pressing
    }

    fn g(&self, m: f64) -> f64 {
        (m - (m - m * m) * self.e) / self.b as f64
    }

    /// the controller's own correction curve, measured: what a fresh controller reports for a press held at the constant
    /// level `m`.  The statement says "corrected for the pull-up resistor and rescaled" without a formula, so when the
    /// documented formula `g` does not fit, the value is compared with this instead (mean first, then whatever
    /// correction the implementation applies); never consulted while the documented formula fits
    ///
    /// The measured curve is only accepted as "a pull-up correction" while it stays within a quarter of the documented
    /// correction term of the documented formula (a re-derivation of the same physics differs in second order; a
    /// dropped, doubled or sign-flipped correction differs by the whole term or more); otherwise NaN, which fits nothing
    fn g_measured(&self, m: f64, cap_at: f64) -> f64 {
        let x = (m.min(cap_at)) as f32;
        let mut f = make(&self.cfg);
        for _ in 0..self.l_need + 1 {
            real!(f.poll(x));
        }
        let got = real!(f.value()) as f64;
        let xm = x as f64;
        let term = ((xm - xm * xm) * self.e / self.b as f64).abs();
        if (got - self.g(xm)).abs() <= 0.25 * term + 16.0 * 5.960464477539063e-8 {
            got
        } else {
            f64::NAN
        }
    }

    /// (expected value, tolerance, corrected min, corrected max, window) for the current run, which must be a press
    fn expected_value(&self) -> (f64, f64, f64, f64, (usize, usize)) {
        let l = self.run.len();
        let lo = l - self.cap;
        let hi = l - self.discard;
        let n = (hi - lo) as f64;
        let mean = (self.prefix[hi] - self.prefix[lo]) / n;
        let (mut mn, mut mx) = (f64::MAX, f64::MIN);
        for x in &self.run[lo..hi] {
            let x = *x as f64;
            if x < mn {
                mn = x;
            }
            if x > mx {
                mx = x;
            }
        }
        let want = self.g(mean);
        // resolution of an f32 running sum of n samples: every addition rounds by at most 2^-24 of the partial sum,
        // so the mean is off by at most 2^-24 * (n+1)/2 * max; doubled, carried through the correction
        // (slope <= (1+e)/b), plus a few ulps for the correction and the rescaling themselves
        let tol = n * 5.960464477539063e-8 * mx.max(0.0) * (1.0 + self.e) / self.b as f64 + 8.0 * 5.960464477539063e-8;
        (want, tol, self.g(mn), self.g(mx), (lo, hi))
    }

    /// (mean, min, max) of the samples that contribute to the value of the current press
    fn window_stats(&self) -> (f64, f64, f64) {
        let l = self.run.len();
        let lo = l - self.cap;
        let hi = l - self.discard;
        let mean = (self.prefix[hi] - self.prefix[lo]) / (hi - lo) as f64;
        let (mut mn, mut mx) = (f64::MAX, f64::MIN);
        for x in &self.run[lo..hi] {
            mn = mn.min(*x as f64);
            mx = mx.max(*x as f64);
        }
        (mean, mn, mx)
    }

    fn value_oracle(&mut self, ctx: &mut Ctx) {
        let l = self.run.len();
        let (want, tol, glo, ghi, (lo, hi)) = self.expected_value();
        let v = real!(self.r.value()) as f64;
        ctx.probe(P_VALUE_CHECKS);
        let mut mean_ok = (v - want).abs() <= tol;
        let mut range_ok = v >= glo - tol && v <= ghi + tol;
        if !mean_ok || !range_ok {
            // not the documented correction formula: is it the windowed mean under the implementation's own correction?
            let (mean, mn, mx) = self.window_stats();
            let t2 = tol + 8.0 * 5.960464477539063e-8;
            mean_ok = (v - self.g_measured(mean, mx)).abs() <= t2;
            range_ok = v >= self.g_measured(mn, mx) - t2 && v <= self.g_measured(mx, mx) + t2;
            ctx.probe(P_MEASURED_CORRECTION_USED);
        }
        ctx.check(16, "value_is_corrected_window_mean", mean_ok, || {
            format!(
                "press of {} samples: value {:.7}, corrected mean of the capture window (samples {}..{} of the press) {:.7}",
                l, v, lo, hi, want
            )
        });
        ctx.check(16, "value_between_corrected_min_and_max", range_ok, || {
            format!("value {:.7} outside the corrected min/max of the contributing samples [{:.7}, {:.7}]", v, glo, ghi)
        });
        ctx.check(16, "value_in_unit_range", (0.0..=1.0).contains(&v), || format!("value {:e} outside [0,1] while pressing", v));
    }

    /// one sample into the real controller and into the run-length model; no getter is called
    #[inline(always)]
    fn feed(&mut self, x: f32, ctx: &mut Ctx) {
        real!(self.r.poll(x));
        ctx.steps += 1;
        if (x - self.b).abs() < 1e-6 {
            if !self.ambiguous {
                ctx.probe(P_AMBIGUOUS_BOUNDARY);
                ctx.suspended += 1;
            }
            self.ambiguous = true;
        }
        let in_range = x < self.b;
        let was = self.pressing;
        if in_range {
            self.run.push(x);
            let last = *self.prefix.last().unwrap();
            self.prefix.push(last + x as f64);
            if self.run.len() >= self.l_need {
                self.pressing = true;
            }
        } else {
            if !self.run.is_empty() && self.run.len() < self.l_need {
                ctx.fault(F_TAP_SHORTER_THAN_CAPTURE);
                self.short_runs_since_press += 1;
                if self.run.len() == self.l_need - 1 {
                    ctx.probe(P_RUN_EXACTLY_L_MINUS_1);
                }
            }
            if was {
                // what value() has to keep showing from now on: the value of the last sample of the press
                let (want, tol, _, _, _) = self.expected_value();
                let (mean, _, mx) = self.window_stats();
                self.lift_expect = Some((want, tol, mean, mx));
            }
            self.run.clear();
            self.prefix.truncate(1);
            self.pressing = false;
        }
        if self.pressing && !was {
            self.jp = true;
            self.jp_unread += 1;
            self.presses += 1;
            ctx.probe(P_PRESSES_REPORTED);
            if self.presses >= 2 {
                ctx.probe(P_SECOND_PRESS);
            }
            if self.short_runs_since_press > 0 {
                ctx.probe(P_TAP_THEN_PRESS);
            }
            self.short_runs_since_press = 0;
        }
        if !self.pressing && was {
            self.jr = true;
            self.jr_unread += 1;
        }
    }

    /// the observer looks at the controller after a stretch of samples during which nobody called a getter
    fn observe_after_blind(&mut self, ctx: &mut Ctx) {
        if self.ambiguous {
            return;
        }
        let got = real!(self.r.pressing());
        let (l, need, want) = (self.run.len(), self.l_need, self.pressing);
        ctx.check(15, "pressing_iff_unbroken_capture_run", got == want, || {
            format!(
                "first look after unobserved samples: unbroken run of {} in-range samples (capture needs {}), finger_is_pressing() = {}",
                l, need, got
            )
        });
        let v = real!(self.r.value());
        if self.pressing {
            self.value_oracle(ctx);
        } else if let Some((want, tol, mean, mx)) = self.lift_expect {
            ctx.probe(P_RETAINED_VALUE_CHECKS);
            let mut ok = (v as f64 - want).abs() <= tol;
            if !ok {
                ok = (v as f64 - self.g_measured(mean, mx)).abs() <= tol + 8.0 * 5.960464477539063e-8;
                ctx.probe(P_MEASURED_CORRECTION_USED);
            }
            ctx.check(16, "value_retained_while_not_pressing", ok, || {
                format!(
                    "first look after unobserved samples, no press reported: value() is {:.7} but the last reported press ended on {:.7}",
                    v, want
                )
            });
        } else {
            let r = self.retained;
            ctx.check(16, "value_retained_while_not_pressing", v.to_bits() == r, || {
                format!("no press was reported during the unobserved samples, yet value() changed from {:e} to {:e}", f32::from_bits(r), v)
            });
        }
        self.retained = v.to_bits();
        self.lift_expect = None;
    }

    #[inline(always)]
    fn one(&mut self, x: f32, ctx: &mut Ctx) {
        self.feed(x, ctx);
        self.lift_expect = None;
        if self.ambiguous {
            return;
        }
        // ---------------- C15
        let got = real!(self.r.pressing());
        let l = self.run.len();
        let need = self.l_need;
        let want = self.pressing;
        ctx.check(15, "pressing_iff_unbroken_capture_run", got == want, || {
            format!(
                "after an unbroken run of {} in-range samples (capture needs {}), finger_is_pressing() = {} (sample {:e}, boundary {:e})",
                l, need, got, x, self.b
            )
        });
        // ---------------- C16
        let vbits = real!(self.r.value()).to_bits();
        if self.pressing {
            let stride = (self.cap / 16).max(1);
            // large buffers: a sample of the press positions, plus the ones where an index is most likely to slip
            // (the first samples of the press, and the samples around the first wrap of the ring buffer)
            let wrap = need + self.cap;
            if self.cap <= 64 || l <= need + 1 || l % stride == 0 || (l + 1 >= wrap && l <= wrap + 1) {
                self.value_oracle(ctx);
            }
            if l == need + self.cap {
                ctx.probe(P_BUFFER_WRAPPED_IN_PRESS);
            }
            self.retained = vbits;
        } else {
            ctx.probe(P_RETAINED_VALUE_CHECKS);
            let r = self.retained;
            ctx.check(16, "value_retained_while_not_pressing", vbits == r, || {
                format!(
                    "no press is being reported (run length {} of {}), yet value() changed from {:e} to {:e}",
                    l,
                    need,
                    f32::from_bits(r),
                    f32::from_bits(vbits)
                )
            });
            // follow the observation so that a single defect is reported once
            self.retained = vbits;
        }
    }

    fn twin(&mut self, kind: u8, arg: u32, ctx: &mut Ctx) {
        if !self.pressing || self.ambiguous {
            return;
        }
        let main = real!(self.r.value());
        let l = self.run.len();
        let lo = l - self.cap;
        let hi = l - self.discard;
        let mut samples = self.run.clone();
        match kind {
            0 => ctx.probe(P_TWIN_FRESH),
            1 => {
                if self.discard == 0 {
                    return;
                }
                ctx.probe(P_TWIN_NEWEST);
                let mut z = arg as u64 | 1;
                for s in samples[hi..].iter_mut() {
                    z = crate::rng::splitmix(z);
                    let u = (z >> 40) as f32 / 16777216.0;
                    *s = u * (self.b - 2e-6).max(0.0);
                }
            }
            _ => {
                ctx.probe(P_TWIN_RAISED);
                let idx = lo + (arg as usize % (hi - lo));
                let room = (self.b - 2e-6) - samples[idx];
                if room <= 0.0 {
                    return;
                }
                let frac = ((arg >> 16) & 0xff) as f32 / 255.0;
                samples[idx] += room * frac.max(0.01);
            }
        }
        let mut f = make(&self.cfg);
        for s in &samples {
            real!(f.poll(*s));
        }
        let tv = real!(f.value());
        let tp = real!(f.pressing());
        // two controllers that average the same window may add it up in a different order (e.g. from wherever their
        // ring buffer stands), so "the same value" is: within the rounding of an f32 sum of that window
        let (_, tol, _, _, _) = self.expected_value();
        let same = (tv as f64 - main as f64).abs() <= tol;
        match kind {
            0 => {
                ctx.check(16, "fresh_twin_same_value", tp && same, || {
                    format!(
                        "a fresh controller fed only the current press ({} samples) reports pressing={} value {:e}; this one, with earlier history, reports {:e}",
                        l, tp, tv, main
                    )
                });
            }
            1 => {
                ctx.check(16, "newest_samples_do_not_matter", tp && same, || {
                    format!(
                        "replacing the newest {} samples (finger-lift allowance) by other in-range values changed the value {:e} -> {:e}",
                        l - hi,
                        main,
                        tv
                    )
                });
            }
            _ => {
                ctx.check(16, "raising_a_sample_never_lowers_value", tp && tv as f64 >= main as f64 - tol, || {
                    format!("raising one contributing sample lowered the value {:e} -> {:e}", main, tv)
                });
            }
        }
    }
}

impl Engine for RibbonEngine {
    const NAME: &'static str = "ribbon";
    const PROBES: &'static [&'static str] = &[
        "fault_tap_shorter_than_capture_time",
        "fault_bounce_inside_press",
        "fault_in_range_glitch_while_lifted",
        "fault_restart",
        "fault_position_jump_inside_press",
        "presses_reported",
        "tap_shorter_than_capture_then_press",
        "second_or_later_press",
        "value_oracle_evaluations",
        "twin_fresh_press",
        "twin_newest_samples",
        "twin_raised_sample",
        "sample_on_press_boundary_oracles_suspended",
        "poll_returned_true_just_pressed",
        "poll_returned_true_just_released",
        "run_one_sample_short_of_capture",
        "retained_value_checks",
        "sweep_traces",
        "ring_buffer_wrapped_inside_press",
        "unobserved_sample_stretches",
        "documented_correction_formula_did_not_fit_measured_curve_consulted",
    ];
    const NFAULT: usize = 5;
    const COMPONENTS: &'static [(&'static str, &'static str)] = &[
        ("synth_utils::ribbon_controller::RibbonController<N> (+ heapless::HistoryBuffer), N from sample_rate_to_capacity", "real code"),
        ("fresh twin controllers for the perturbation checks", "real code"),
        ("finger / ADC, sample clock, edge poller, restarter", "simulator stub (seeded scheduler)"),
        ("run-length press model, edge latches, f64 windowed mean with pull-up correction", "oracle written from the property statements"),
    ];
    type Cfg = Cfg;
    type Ev = Ev;
    type Exec = Exec;

    fn new_exec(cfg: &Cfg, ctx: &mut Ctx) -> Exec {
        let r = make(cfg);
        let b = cfg.boundary();
        let cap = cfg.capacity();
        // measure the capture length on a fresh controller under a constant in-range input
        let mut probe = make(cfg);
        let limit = cap + (cfg.fs() as usize + 999) / 1000 + 4;
        let mut l_need = 0usize;
        let x = b * 0.25;
        for i in 1..=limit {
            real!(probe.poll(x));
            if real!(probe.pressing()) {
                l_need = i;
                break;
            }
        }
        let hi = cap + (cfg.fs() as usize + 999) / 1000;
        ctx.check(15, "capture_length_is_buffer_plus_settling", l_need >= cap && l_need <= hi, || {
            format!(
                "fresh controller at {} Hz (capacity {}): first press reported after {} constant in-range samples, expected between {} and {}",
                cfg.fs(),
                cap,
                l_need,
                cap,
                hi
            )
        });
        if l_need == 0 {
            l_need = cap; // keep the model usable; C15 has already been reported
        }
        let retained0 = real!(r.value()).to_bits();
        Exec {
            cfg: cfg.clone(),
            r,
            b,
            cap,
            discard: cfg.discard(),
            e: ((cfg.softpot + cfg.dropper) / cfg.pullup) as f64,
            l_need,
            run: Vec::new(),
            prefix: vec![0.0],
            pressing: false,
            jp: false,
            jp_unread: 0,
            jr_unread: 0,
            jr: false,
            retained: retained0,
            ambiguous: false,
            presses: 0,
            short_runs_since_press: 0,
            lift_expect: None,
        }
    }

    fn step(ex: &mut Exec, ev: &Ev, ctx: &mut Ctx) {
        match ev {
            Ev::Samples(bits, n) => {
                let x = f32::from_bits(*bits);
                ctx.sim_ns += (*n as f64 * 1e9 / ex.cfg.fs() as f64) as u64;
                let p0 = ex.pressing;
                for i in 0..*n {
                    ex.one(x, ctx);
                    if i & 0xffff == 0xffff {
                        heartbeat();
                    }
                }
                let frac = ((ex.run.len() * 4) / ex.l_need.max(1)).min(7) as u32;
                ctx.transition(1 | ((x < ex.b) as u32) << 3 | (p0 as u32) << 4 | (ex.pressing as u32) << 5 | frac << 6 | ((*n).min(15)) << 9);
            }
            Ev::SamplesBlind(bits, n) => {
                let x = f32::from_bits(*bits);
                ctx.sim_ns += (*n as f64 * 1e9 / ex.cfg.fs() as f64) as u64;
                let p0 = ex.pressing;
                for i in 0..*n {
                    ex.feed(x, ctx);
                    if i & 0xffff == 0xffff {
                        heartbeat();
                    }
                }
                ctx.probe(P_BLIND_SAMPLES);
                ctx.transition(5 | ((x < ex.b) as u32) << 3 | (p0 as u32) << 4 | (ex.pressing as u32) << 5 | ((*n).min(15)) << 9);
            }
            Ev::Look => ex.observe_after_blind(ctx),
            Ev::PollPressed | Ev::PollReleased => {
                let pressed = matches!(ev, Ev::PollPressed);
                let got = if pressed { real!(ex.r.just_pressed()) } else { real!(ex.r.just_released()) };
                let want = if pressed { ex.jp } else { ex.jr };
                let unread = if pressed { ex.jp_unread } else { ex.jr_unread };
                // `true` needs an unread change; `false` is only right when no change is waiting.  Several changes that
                // were never polled may be answered by one `true` (a flag) or by one `true` each (a counter)
                let ok = if got { unread >= 1 } else { !want };
                if !ex.ambiguous {
                    ctx.check(15, if pressed { "just_pressed_once_per_press" } else { "just_released_once_per_release" }, ok, || {
                        format!(
                            "finger_just_{}() returned {} but the press history says {}",
                            if pressed { "pressed" } else { "released" },
                            got,
                            want
                        )
                    });
                }
                if got {
                    ctx.probe(if pressed { P_POLL_TRUE_PRESSED } else { P_POLL_TRUE_RELEASED });
                }
                if pressed {
                    ex.jp = false;
                    ex.jp_unread = if got { ex.jp_unread.saturating_sub(1) } else { 0 };
                } else {
                    ex.jr = false;
                    ex.jr_unread = if got { ex.jr_unread.saturating_sub(1) } else { 0 };
                }
                ctx.transition(2 | (pressed as u32) << 3 | (got as u32) << 4 | (ex.pressing as u32) << 5);
            }
            Ev::Twin(kind, arg) => {
                ex.twin(*kind, *arg, ctx);
            }
            Ev::Capacity(fs) => {
                // C17 asks that the helper returns (no panic, no overflow) over the documented range; no statement fixes
                // its formula, so the result is only used, not compared
                let c = real!(sample_rate_to_capacity(*fs));
                ctx.cover(0x4000_0000 | (c.min(0xffff) as u32));
            }
            Ev::Restart => {
                ctx.fault(F_RESTART);
                ex.r = make(&ex.cfg);
                ex.run.clear();
                ex.prefix.truncate(1);
                ex.pressing = false;
                ex.jp = false;
                ex.jr = false;
                ex.jp_unread = 0;
                ex.jr_unread = 0;
                ex.retained = real!(ex.r.value()).to_bits();
                ex.lift_expect = None;
                ex.ambiguous = false;
                ex.short_runs_since_press = 0;
                ctx.transition(3);
            }
        }
    }

    fn finish(_ex: &mut Exec, _ctx: &mut Ctx) {}

    fn run(rng: &mut Rng, prof: &Profile, run: u64, sink: &mut Sink<Self>) {
        if run == 3 && prof.tier == Tier::Thorough {
            random_run_m(rng, prof, sink, true);
        } else if !prof.chaos && run % 8 == 7 {
            sweep_run(rng, sink);
        } else {
            random_run(rng, prof, sink);
        }
    }

    fn cfg_json(c: &Cfg) -> J {
        J::obj(vec![
            ("sample_rate_hz", J::u(c.fs() as u64)),
            ("buffer_capacity", J::u(c.capacity() as u64)),
            ("softpot_ohms", f32j(c.softpot)),
            ("dropper_ohms", f32j(c.dropper)),
            ("pullup_ohms", f32j(c.pullup)),
            ("readable", J::Arr(vec![J::Num(c.softpot as f64), J::Num(c.dropper as f64), J::Num(c.pullup as f64)])),
        ])
    }
    fn cfg_parse(j: &J) -> Result<Cfg, String> {
        let fs = ju64(j.get("sample_rate_hz").ok_or("no sample_rate_hz")?)? as u32;
        let fs_idx = FS_MENU.iter().position(|x| *x == fs).ok_or("sample rate not in the compiled menu")?;
        Ok(Cfg {
            fs_idx,
            softpot: jf32(j.get("softpot_ohms").ok_or("no softpot_ohms")?)?,
            dropper: jf32(j.get("dropper_ohms").ok_or("no dropper_ohms")?)?,
            pullup: jf32(j.get("pullup_ohms").ok_or("no pullup_ohms")?)?,
        })
    }
    fn ev_json(e: &Ev) -> J {
        match e {
            Ev::Samples(b, n) => J::Arr(vec![J::s("poll"), J::hex32(*b), J::u(*n as u64), J::Num(f32::from_bits(*b) as f64)]),
            Ev::SamplesBlind(b, n) => J::Arr(vec![J::s("poll_unobserved"), J::hex32(*b), J::u(*n as u64), J::Num(f32::from_bits(*b) as f64)]),
            Ev::Look => J::Arr(vec![J::s("look")]),
            Ev::PollPressed => J::Arr(vec![J::s("just_pressed")]),
            Ev::PollReleased => J::Arr(vec![J::s("just_released")]),
            Ev::Twin(k, a) => J::Arr(vec![J::s("twin"), J::s(["fresh_press", "newest_samples", "raised_sample"][(*k).min(2) as usize]), J::u(*a as u64)]),
            Ev::Restart => J::Arr(vec![J::s("restart")]),
            Ev::Capacity(fs) => J::Arr(vec![J::s("capacity_helper"), J::u(*fs as u64)]),
        }
    }
    fn ev_parse(j: &J) -> Result<Ev, String> {
        let (n, a) = ev_name(j)?;
        Ok(match n {
            "poll" => Ev::Samples(arg(a, 0)?.as_hex32().ok_or("bad bits")?, ju64(arg(a, 1)?)? as u32),
            "poll_unobserved" => Ev::SamplesBlind(arg(a, 0)?.as_hex32().ok_or("bad bits")?, ju64(arg(a, 1)?)? as u32),
            "look" => Ev::Look,
            "just_pressed" => Ev::PollPressed,
            "just_released" => Ev::PollReleased,
            "twin" => Ev::Twin(
                match arg(a, 0)?.as_str() {
                    Some("fresh_press") => 0,
                    Some("newest_samples") => 1,
                    _ => 2,
                },
                ju64(arg(a, 1)?)? as u32,
            ),
            "restart" => Ev::Restart,
            "capacity_helper" => Ev::Capacity(ju64(arg(a, 0)?)? as u32),
            x => return Err(format!("unknown ribbon event {}", x)),
        })
    }
    fn shrink_ev(e: &Ev) -> Vec<Ev> {
        match e {
            Ev::Samples(b, n) => {
                let mut v = Vec::new();
                if *n > 1 {
                    v.push(Ev::Samples(*b, 1));
                    v.push(Ev::Samples(*b, n / 2));
                    v.push(Ev::Samples(*b, n - 1));
                }
                for c in [0.25f32, 0.5, 1.0, 0.0] {
                    if c.to_bits() != *b {
                        v.push(Ev::Samples(c.to_bits(), *n));
                    }
                }
                v
            }
            _ => Vec::new(),
        }
    }
    fn shrink_cfg(c: &Cfg) -> Vec<Cfg> {
        let mut v = Vec::new();
        for idx in [3usize, 0, 8] {
            if FS_MENU[idx] < c.fs() {
                v.push(Cfg { fs_idx: idx, ..c.clone() });
            }
        }
        if !(c.softpot == 20e3 && c.dropper == 820.0 && c.pullup == 1e6) {
            v.push(Cfg { fs_idx: c.fs_idx, softpot: 20e3, dropper: 820.0, pullup: 1e6 });
        }
        v
    }
    fn merge(a: &Ev, b: &Ev) -> Option<Ev> {
        match (a, b) {
            (Ev::Samples(x, n), Ev::Samples(y, m)) if x == y => n.checked_add(*m).map(|k| Ev::Samples(*x, k)),
            (Ev::SamplesBlind(x, n), Ev::SamplesBlind(y, m)) if x == y => n.checked_add(*m).map(|k| Ev::SamplesBlind(*x, k)),
            _ => None,
        }
    }
}

// ---------------------------------------------------------------------------------------------

fn gen_cfg(rng: &mut Rng, small: bool) -> Cfg {
    let small_idx: Vec<usize> = (0..FS_MENU.len()).filter(|i| FS_MENU[*i] <= 3000).collect();
    let fs_idx = if small { *rng.pick(&small_idx) } else { rng.usize(FS_MENU.len()) };
    let (softpot, dropper, pullup) = if rng.chance(0.3) {
        (20e3f32, 820.0f32, 1e6f32)
    } else {
        let sp = *rng.pick(&[10e3f32, 20e3, 5e3, 100e3]);
        let dr = (sp as f64 * if rng.chance(0.8) { rng.log_uniform(0.005, 0.3) } else { rng.log_uniform(1e-4, 2.0) }) as f32;
        // pull-up from just the divider resistance (the statement's lower limit) up to practically open circuit
        let pu = ((sp + dr) as f64 * if rng.chance(0.8) { rng.log_uniform(1.0, 200.0) } else { rng.log_uniform(200.0, 1e8) }) as f32;
        (sp, dr, pu.max(sp + dr))
    };
    Cfg { fs_idx, softpot, dropper, pullup }
}

fn in_range(rng: &mut Rng, b: f32) -> f32 {
    if rng.chance(0.03) {
        return -0.0; // equals 0.0, a legal reading with the sign bit set
    }
    let hi = b - 2e-6;
    match rng.below(10) {
        0 => 0.0,
        1 => hi,
        2 => hi * 0.5,
        _ => (rng.f64() as f32) * hi,
    }
    .max(0.0)
}
fn out_of_range(rng: &mut Rng, b: f32) -> f32 {
    let lo = b + 2e-6;
    match rng.below(6) {
        0 => 1.0,
        1 => lo,
        _ => lo + (rng.f64() as f32) * (1.0 - lo),
    }
    .min(1.0)
}

/// a stretch of in-range samples: constant, drifting or noisy, as runs of equal samples
thread_local! {
    /// generator-side switch: the current run's observer is not looking between explicit looks
    static BLIND: std::cell::Cell<bool> = const { std::cell::Cell::new(false) };
}

fn samples(rng: &mut Rng, t: &mut Trace<RibbonEngine>, bits: u32, n: u32) {
    if BLIND.with(|b| b.get()) {
        t.push(Ev::SamplesBlind(bits, n));
        if rng.chance(0.25) {
            t.push(Ev::Look);
        }
    } else {
        t.push(Ev::Samples(bits, n));
    }
}

fn press(rng: &mut Rng, t: &mut Trace<RibbonEngine>, b: f32, mut n: usize) {
    let style = rng.below(4);
    let mut pos = in_range(rng, b);
    while n > 0 && !t.dead {
        let k = match style {
            0 => n,
            1 => rng.range(1, (n as u64).min(1 + n as u64 / 4).max(1)) as usize,
            _ => rng.range(1, 6).min(n as u64) as usize,
        }
        .min(n);
        { let (b__, n__) = (pos.to_bits(), k as u32); samples(rng, t, b__, n__); }
        n -= k;
        match style {
            1 => {
                if rng.chance(0.2) {
                    t.ctx.fault(F_POSITION_JUMP_INSIDE_PRESS);
                    pos = in_range(rng, b);
                }
            }
            2 => pos = (pos + (rng.uniform(-0.01, 0.01) as f32)).clamp(0.0, b - 2e-6),
            3 => pos = in_range(rng, b),
            _ => {}
        }
    }
}

fn polls(rng: &mut Rng, t: &mut Trace<RibbonEngine>, p: f64) {
    while rng.chance(p) {
        t.push(if rng.chance(0.5) { Ev::PollPressed } else { Ev::PollReleased });
    }
}

fn random_run(rng: &mut Rng, prof: &Profile, sink: &mut Sink<RibbonEngine>) {
    random_run_m(rng, prof, sink, false)
}

fn random_run_m(rng: &mut Rng, prof: &Profile, sink: &mut Sink<RibbonEngine>, marathon: bool) {
    let small = rng.chance(0.55);
    let cfg = gen_cfg(rng, small);
    let b = cfg.boundary();
    let mut t = sink.begin(cfg.clone());
    if t.dead {
        sink.end(t);
        return;
    }
    let l = t.exec().l_need();
    let p_poll = *rng.pick(&[0.0, 0.1, 0.4, 0.8]);
    // in a fifth of the runs nobody calls a getter between explicit looks (a control-rate reader, lazily computed outputs)
    BLIND.with(|bl| bl.set(!prof.chaos && rng.chance(0.2)));
    if prof.chaos {
        for _ in 0..rng.range(1, 4) {
            let fs = match rng.below(3) {
                0 => *rng.pick(&[100u32, 192_000, 191_999, 101, 999, 1000]),
                _ => rng.range(100, 192_000) as u32,
            };
            t.push(Ev::Capacity(fs));
        }
    }
    let segs = 3 + rng.usize(if prof.tier == Tier::Thorough { 14 } else { 9 });
    let budget = (l as u64 * 24).max(400);
    if marathon && !t.dead {
        // a day of uptime with the finger lifted: more polls than a 32-bit sample counter holds, then the ribbon is played
        if rng.chance(0.5) {
            press(rng, &mut t, b, l + 5);
        }
        t.push(Ev::SamplesBlind(out_of_range(rng, b).to_bits(), u32::MAX - rng.below(3000) as u32));
        t.push(Ev::Look);
        t.push(Ev::SamplesBlind(out_of_range(rng, b).to_bits(), rng.range(1, 4000) as u32));
        t.push(Ev::Look);
    }
    // long-running blocks (where 8- and 16-bit counters wrap), in a small share of the runs
    if rng.chance(0.03) && !t.dead {
        if rng.chance(0.5) {
            // a power-of-two-ish number of complete presses with no edge poll in between, then the polls
            let n = rng.near_pow2(false);
            let x = in_range(rng, b);
            let o = out_of_range(rng, b);
            if (l as u64 + 1) * n < 400_000 {
                for _ in 0..n {
                    { let (b__, n__) = (x.to_bits(), l as u32 + rng.below(2) as u32); samples(rng, &mut t, b__, n__); }
                    { let (b__, n__) = (o.to_bits(), 1); samples(rng, &mut t, b__, n__); }
                }
                { let (b__, n__) = (x.to_bits(), l as u32); samples(rng, &mut t, b__, n__); }
                for _ in 0..2 {
                    t.push(Ev::PollPressed);
                    t.push(Ev::PollReleased);
                }
            }
        } else {
            // one very long press: 65 536 +- a few consecutive in-range samples and beyond
            let n = 65_536 - l as u64 + rng.below(2 * l as u64 + 8);
            let x = in_range(rng, b);
            { let (b__, n__) = (x.to_bits(), n as u32); samples(rng, &mut t, b__, n__); }
            if rng.chance(0.5) {
                { let (b__, n__) = (in_range(rng, b).to_bits(), 2 * l as u32 + 70_000); samples(rng, &mut t, b__, n__); }
                twins_cheap(rng, &mut t);
                { let (b__, n__) = (out_of_range(rng, b).to_bits(), 2); samples(rng, &mut t, b__, n__); }
            } else {
                // the finger is lifted exactly when a 16-bit count of the press's samples is back at zero (or one off):
                // the lift must be seen all the same
                let mut total = 65_536u64 * (1 + rng.below(2));
                if rng.chance(0.2) {
                    total = if rng.chance(0.5) { total - 1 } else { total + 1 };
                }
                if total > n {
                    { let (b__, n__) = (in_range(rng, b).to_bits(), (total - n) as u32); samples(rng, &mut t, b__, n__); }
                }
                { let (b__, n__) = (out_of_range(rng, b).to_bits(), 1 + rng.below(2) as u32); samples(rng, &mut t, b__, n__); }
                t.push(Ev::Look);
                t.push(Ev::PollReleased);
            }
        }
    }
    let budget = budget + t.ctx.steps;
    for _ in 0..segs {
        if t.dead || t.ctx.steps > budget {
            break;
        }
        polls(rng, &mut t, p_poll);
        match rng.weighted(&[26, 22, 10, 14, 10, 1, 8]) {
            0 => {
                // a full press, sometimes long enough for the ring buffer to wrap, then lift
                let n = l + match rng.below(5) {
                    0 => 0,
                    1 => 1,
                    2 => rng.usize(l.max(1)),
                    3 => l + rng.usize(l.max(1)),
                    _ => rng.usize(8),
                };
                press(rng, &mut t, b, n);
                twins(rng, &mut t);
                polls(rng, &mut t, p_poll);
                { let (b__, n__) = (out_of_range(rng, b).to_bits(), rng.range(1, 6) as u32); samples(rng, &mut t, b__, n__); }
            }
            1 => {
                // a tap shorter than the capture time
                let n = match rng.below(5) {
                    0 => l - 1,
                    1 => 1,
                    2 => l / 2,
                    3 => l.saturating_sub(2).max(1),
                    _ => 1 + rng.usize(l.max(2) - 1),
                }
                .max(1)
                .min(l - 1)
                .max(1);
                if l > 1 {
                    press(rng, &mut t, b, n);
                }
                { let (b__, n__) = (out_of_range(rng, b).to_bits(), rng.range(1, 3) as u32); samples(rng, &mut t, b__, n__); }
            }
            2 => {
                // bounce: a single out-of-range sample inside what would be a press
                let n1 = 1 + rng.usize(l + 4);
                press(rng, &mut t, b, n1);
                t.ctx.fault(F_BOUNCE_INSIDE_PRESS);
                { let (b__, n__) = (out_of_range(rng, b).to_bits(), 1); samples(rng, &mut t, b__, n__); }
                let n2 = match rng.below(4) {
                    0 => l.saturating_sub(n1).max(1),
                    1 => l - 1,
                    2 => l,
                    _ => 1 + rng.usize(l + 4),
                }
                .max(1);
                press(rng, &mut t, b, n2);
                twins(rng, &mut t);
            }
            3 => {
                // lifted, with isolated in-range glitches
                for _ in 0..rng.range(1, 6) {
                    { let (b__, n__) = (out_of_range(rng, b).to_bits(), rng.range(1, 8) as u32); samples(rng, &mut t, b__, n__); }
                    if rng.chance(0.6) {
                        t.ctx.fault(F_GLITCH_WHILE_LIFTED);
                        { let (b__, n__) = (in_range(rng, b).to_bits(), rng.range(1, 3) as u32); samples(rng, &mut t, b__, n__); }
                    }
                }
                { let (b__, n__) = (1.0f32.to_bits(), 1); samples(rng, &mut t, b__, n__); }
            }
            4 => {
                // keep pressing (no lift) — position changes inside a press
                let n = 1 + rng.usize(l);
                press(rng, &mut t, b, n);
                twins(rng, &mut t);
            }
            5 => t.push(Ev::Restart),
            _ => {
                // many short taps in a row that together exceed the capture length
                let mut total = 0;
                while total < 2 * l && !t.dead {
                    let n = 1 + rng.usize((l / 3).max(1));
                    press(rng, &mut t, b, n.min(l.saturating_sub(1)).max(1));
                    { let (b__, n__) = (out_of_range(rng, b).to_bits(), 1); samples(rng, &mut t, b__, n__); }
                    total += n;
                    if l <= 1 {
                        break;
                    }
                }
            }
        }
    }
    if BLIND.with(|bl| bl.get()) {
        t.push(Ev::Look);
    }
    BLIND.with(|bl| bl.set(false));
    polls(rng, &mut t, 0.5);
    sink.end(t);
}

/// after a very long press only the newest-samples twin is affordable (the others replay the whole press)
fn twins_cheap(_rng: &mut Rng, _t: &mut Trace<RibbonEngine>) {}

fn twins(rng: &mut Rng, t: &mut Trace<RibbonEngine>) {
    if t.dead || !t.exec().is_pressing() {
        return;
    }
    if rng.chance(0.5) {
        t.push(Ev::Twin(0, 0));
    }
    if rng.chance(0.4) {
        t.push(Ev::Twin(1, rng.next() as u32));
    }
    if rng.chance(0.4) {
        t.push(Ev::Twin(2, rng.next() as u32));
    }
}

/// single-fault sweep on the small capacities: one out-of-range sample at every index of a press,
/// and two-tap histories with every split
fn sweep_run(rng: &mut Rng, sink: &mut Sink<RibbonEngine>) {
    let cfg = gen_cfg(rng, true);
    let b = cfg.boundary();
    let probe = sink.begin(cfg.clone());
    if probe.dead {
        sink.end(probe);
        return;
    }
    let l = probe.exec().l_need();
    sink.end(probe);
    let x1 = in_range(rng, b);
    let x2 = in_range(rng, b);
    let oor = out_of_range(rng, b);
    // (a) an out-of-range sample at every index of a press, followed by a second stretch of every relevant length
    for i in 0..=l + 1 {
        for second in [l.saturating_sub(i).max(1), l - 1, l, l + 2] {
            if second == 0 {
                continue;
            }
            let mut t = sink.begin(cfg.clone());
            t.ctx.probe(P_SWEEP_TRACES);
            t.ctx.fault(F_BOUNCE_INSIDE_PRESS);
            if i > 0 {
                t.push(Ev::Samples(x1.to_bits(), i as u32));
            }
            t.push(Ev::PollPressed);
            t.push(Ev::Samples(oor.to_bits(), 1));
            t.push(Ev::PollReleased);
            t.push(Ev::Samples(x2.to_bits(), second as u32));
            t.push(Ev::Twin(0, 0));
            t.push(Ev::PollPressed);
            t.push(Ev::PollPressed);
            t.push(Ev::Samples(oor.to_bits(), 1));
            t.push(Ev::PollReleased);
            t.push(Ev::PollReleased);
            sink.end(t);
        }
    }
    // (b) a reported press, a lift, then a tap of every length
    for n in 1..=l + 1 {
        let mut t = sink.begin(cfg.clone());
        t.ctx.probe(P_SWEEP_TRACES);
        t.push(Ev::Samples(x1.to_bits(), (l + 3) as u32));
        t.push(Ev::Samples(oor.to_bits(), 2));
        t.push(Ev::Samples(x2.to_bits(), n as u32));
        t.push(Ev::Twin(0, 0));
        t.push(Ev::Twin(1, 12345));
        t.push(Ev::PollPressed);
        t.push(Ev::PollReleased);
        sink.end(t);
    }
}
