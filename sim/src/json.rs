//! Minimal JSON value, printer and parser (no external crates, so the build never needs the network).

#[derive(Clone, Debug, PartialEq)]
pub enum J {
    Null,
    Bool(bool),
    Int(i128),
    Num(f64),
    Str(String),
    Arr(Vec<J>),
    Obj(Vec<(String, J)>),
}

impl J {
    pub fn obj(kv: Vec<(&str, J)>) -> J {
        J::Obj(kv.into_iter().map(|(k, v)| (k.to_string(), v)).collect())
    }
    pub fn s(x: &str) -> J {
        J::Str(x.to_string())
    }
    pub fn u(x: u64) -> J {
        J::Int(x as i128)
    }
    pub fn hex32(x: u32) -> J {
        J::Str(format!("0x{:08x}", x))
    }
    pub fn get(&self, k: &str) -> Option<&J> {
        match self {
            J::Obj(kv) => kv.iter().find(|(kk, _)| kk == k).map(|(_, v)| v),
            _ => None,
        }
    }
    pub fn as_str(&self) -> Option<&str> {
        match self {
            J::Str(s) => Some(s),
            _ => None,
        }
    }
    pub fn as_u64(&self) -> Option<u64> {
        match self {
            J::Int(i) if *i >= 0 && *i <= u64::MAX as i128 => Some(*i as u64),
            _ => None,
        }
    }
    pub fn as_bool(&self) -> Option<bool> {
        match self {
            J::Bool(b) => Some(*b),
            _ => None,
        }
    }
    pub fn as_arr(&self) -> Option<&[J]> {
        match self {
            J::Arr(a) => Some(a),
            _ => None,
        }
    }
    /// "0x3f800000" -> u32
    pub fn as_hex32(&self) -> Option<u32> {
        let s = self.as_str()?;
        let s = s.strip_prefix("0x")?;
        u32::from_str_radix(s, 16).ok()
    }

    pub fn write(&self, out: &mut String, indent: usize, pretty: bool) {
        match self {
            J::Null => out.push_str("null"),
            J::Bool(b) => out.push_str(if *b { "true" } else { "false" }),
            J::Int(i) => out.push_str(&i.to_string()),
            J::Num(f) => {
                if f.is_finite() {
                    let s = format!("{:?}", f);
                    out.push_str(&s);
                } else {
                    out.push_str("null");
                }
            }
            J::Str(s) => {
                out.push('"');
                for c in s.chars() {
                    match c {
                        '"' => out.push_str("\\\""),
                        '\\' => out.push_str("\\\\"),
                        '\n' => out.push_str("\\n"),
                        '\t' => out.push_str("\\t"),
                        '\r' => out.push_str("\\r"),
                        c if (c as u32) < 0x20 => out.push_str(&format!("\\u{:04x}", c as u32)),
                        c => out.push(c),
                    }
                }
                out.push('"');
            }
            J::Arr(a) => {
                // arrays of scalars stay on one line
                let flat = a.iter().all(|x| !matches!(x, J::Obj(_)) && !matches!(x, J::Arr(b) if b.iter().any(|y| matches!(y, J::Arr(_)|J::Obj(_)))));
                out.push('[');
                for (i, x) in a.iter().enumerate() {
                    if i > 0 {
                        out.push(',');
                    }
                    if pretty && !flat {
                        out.push('\n');
                        out.push_str(&" ".repeat(indent + 1));
                    } else if pretty && i > 0 {
                        out.push(' ');
                    }
                    x.write(out, indent + 1, pretty && !flat);
                }
                if pretty && !flat && !a.is_empty() {
                    out.push('\n');
                    out.push_str(&" ".repeat(indent));
                }
                out.push(']');
            }
            J::Obj(kv) => {
                out.push('{');
                for (i, (k, v)) in kv.iter().enumerate() {
                    if i > 0 {
                        out.push(',');
                    }
                    if pretty {
                        out.push('\n');
                        out.push_str(&" ".repeat(indent + 1));
                    }
                    J::Str(k.clone()).write(out, 0, false);
                    out.push(':');
                    if pretty {
                        out.push(' ');
                    }
                    v.write(out, indent + 1, pretty);
                }
                if pretty && !kv.is_empty() {
                    out.push('\n');
                    out.push_str(&" ".repeat(indent));
                }
                out.push('}');
            }
        }
    }

    pub fn pretty(&self) -> String {
        let mut s = String::new();
        self.write(&mut s, 0, true);
        s.push('\n');
        s
    }
    pub fn compact(&self) -> String {
        let mut s = String::new();
        self.write(&mut s, 0, false);
        s
    }

    pub fn parse(src: &str) -> Result<J, String> {
        let b = src.as_bytes();
        let mut p = 0usize;
        let v = parse_val(b, &mut p)?;
        skip_ws(b, &mut p);
        if p != b.len() {
            return Err(format!("trailing data at {}", p));
        }
        Ok(v)
    }
}

fn skip_ws(b: &[u8], p: &mut usize) {
    while *p < b.len() && (b[*p] == b' ' || b[*p] == b'\n' || b[*p] == b'\t' || b[*p] == b'\r') {
        *p += 1;
    }
}

fn parse_val(b: &[u8], p: &mut usize) -> Result<J, String> {
    skip_ws(b, p);
    if *p >= b.len() {
        return Err("eof".into());
    }
    match b[*p] {
        b'n' => lit(b, p, "null", J::Null),
        b't' => lit(b, p, "true", J::Bool(true)),
        b'f' => lit(b, p, "false", J::Bool(false)),
        b'"' => Ok(J::Str(parse_str(b, p)?)),
        b'[' => {
            *p += 1;
            let mut a = Vec::new();
            skip_ws(b, p);
            if *p < b.len() && b[*p] == b']' {
                *p += 1;
                return Ok(J::Arr(a));
            }
            loop {
                a.push(parse_val(b, p)?);
                skip_ws(b, p);
                if *p >= b.len() {
                    return Err("eof in array".into());
                }
                if b[*p] == b',' {
                    *p += 1;
                } else if b[*p] == b']' {
                    *p += 1;
                    return Ok(J::Arr(a));
                } else {
                    return Err(format!("bad array at {}", p));
                }
            }
        }
        b'{' => {
            *p += 1;
            let mut kv = Vec::new();
            skip_ws(b, p);
            if *p < b.len() && b[*p] == b'}' {
                *p += 1;
                return Ok(J::Obj(kv));
            }
            loop {
                skip_ws(b, p);
                let k = parse_str(b, p)?;
                skip_ws(b, p);
                if *p >= b.len() || b[*p] != b':' {
                    return Err(format!("expected : at {}", p));
                }
                *p += 1;
                let v = parse_val(b, p)?;
                kv.push((k, v));
                skip_ws(b, p);
                if *p >= b.len() {
                    return Err("eof in object".into());
                }
                if b[*p] == b',' {
                    *p += 1;
                } else if b[*p] == b'}' {
                    *p += 1;
                    return Ok(J::Obj(kv));
                } else {
                    return Err(format!("bad object at {}", p));
                }
            }
        }
        _ => {
            let st = *p;
            let mut is_float = false;
            while *p < b.len() && (b[*p].is_ascii_digit() || matches!(b[*p], b'-' | b'+' | b'.' | b'e' | b'E')) {
                if matches!(b[*p], b'.' | b'e' | b'E') {
                    is_float = true;
                }
                *p += 1;
            }
            let s = std::str::from_utf8(&b[st..*p]).map_err(|e| e.to_string())?;
            if s.is_empty() {
                return Err(format!("unexpected byte at {}", st));
            }
            if is_float {
                s.parse::<f64>().map(J::Num).map_err(|e| e.to_string())
            } else {
                s.parse::<i128>().map(J::Int).map_err(|e| e.to_string())
            }
        }
    }
}

fn lit(b: &[u8], p: &mut usize, w: &str, v: J) -> Result<J, String> {
    if b.len() >= *p + w.len() && &b[*p..*p + w.len()] == w.as_bytes() {
        *p += w.len();
        Ok(v)
    } else {
        Err(format!("bad literal at {}", p))
    }
}

fn parse_str(b: &[u8], p: &mut usize) -> Result<String, String> {
    if *p >= b.len() || b[*p] != b'"' {
        return Err(format!("expected string at {}", p));
    }
    *p += 1;
    let mut out: Vec<u8> = Vec::new();
    while *p < b.len() {
        match b[*p] {
            b'"' => {
                *p += 1;
                return String::from_utf8(out).map_err(|e| e.to_string());
            }
            b'\\' => {
                *p += 1;
                if *p >= b.len() {
                    break;
                }
                match b[*p] {
                    b'n' => out.push(b'\n'),
                    b't' => out.push(b'\t'),
                    b'r' => out.push(b'\r'),
                    b'u' => {
                        let h = std::str::from_utf8(&b[*p + 1..*p + 5]).map_err(|e| e.to_string())?;
                        let c = u32::from_str_radix(h, 16).map_err(|e| e.to_string())?;
                        let ch = char::from_u32(c).unwrap_or('?');
                        let mut buf = [0u8; 4];
                        out.extend_from_slice(ch.encode_utf8(&mut buf).as_bytes());
                        *p += 4;
                    }
                    c => out.push(c),
                }
                *p += 1;
            }
            c => {
                out.push(c);
                *p += 1;
            }
        }
    }
    Err("eof in string".into())
}
