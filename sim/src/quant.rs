//! Engine `quant`: a CV source, a scale editor and a restarter around the real `Quantizer`.
//! Decides C07 (never a forbidden note), C09 (hysteresis) and C19 (record consistency) + part of C17.

use crate::core::*;
use crate::json::J;
use crate::real;
use crate::rng::Rng;
use synth_utils::quantizer::{Note, Quantizer};

pub struct QuantEngine;

#[derive(Clone, Debug)]
pub struct Cfg {}

#[derive(Clone, Debug)]
pub enum Ev {
    Convert(u32),
    /// the same input converted n times in a row (a held key at the sample rate)
    Hold(u32, u32),
    Allow(Vec<u8>),
    Forbid(Vec<u8>),
    /// power cycle: Quantizer::new() + the current scale re-applied
    Restart,
}

const F_EDIT_BETWEEN_CONVERSIONS: usize = 0;
const F_RESTART: usize = 1;
const F_OUT_OF_RANGE_INPUT: usize = 2;
const F_NONFINITE_INPUT: usize = 3;
const F_FORBID_EVERYTHING: usize = 4;
const F_ODD_NOTE_ARGS: usize = 5;
const F_NOISE_AT_BOUNDARY: usize = 6;
const F_JUMP: usize = 7;
const P_EDIT_BETWEEN_EQUAL_INPUTS_OCT_GE1: usize = 8;
const P_WINDOW_HIT_OCT_GE1: usize = 9;
const P_PREV_NOTE_FORBIDDEN_IN_WINDOW: usize = 10;
const P_AMBIGUOUS_EDGE: usize = 11;
const P_NOISE_BAND_CONVERSIONS: usize = 12;
const P_MONOTONE_CHAIN_STEPS: usize = 13;
const P_FRESH_CHROMATIC: usize = 14;
const P_MEMORYLESS_COMPARISONS: usize = 15;
const P_WINDOW_EDGE_ZONE: usize = 16;
const P_SPARSE_SCALE_CONVERSIONS: usize = 17;
const P_NOTE_CHANGED: usize = 18;
const P_SWEEP_TRACES: usize = 19;

const SEMI: f64 = 1.0 / 12.0;
const HYST: f64 = 1.0 / 120.0;

fn ulp32(x: f32) -> f64 {
    let a = x.abs().max(f32::MIN_POSITIVE);
    let b = f32::from_bits(a.to_bits() + 1);
    (b as f64) - (a as f64)
}

/// pitch class a note number stands for.  What numbers above 11 mean is C20's business (not decided by this
/// technique), so the scale model takes the crate's own conversion as given instead of assuming "acts as 11";
/// a conversion that leaves 0..=11 is folded so that the model stays well-formed
fn class_of(n: u8) -> u16 {
    let c: u8 = real!(Note::from(n).into());
    (c % 12) as u16
}
fn apply_forbid(mask: u16, notes: &[u8]) -> u16 {
    let mut m = mask;
    for n in notes {
        m &= !(1u16 << class_of(*n));
    }
    if m == 0 {
        if let Some(l) = notes.last() {
            m = 1u16 << class_of(*l);
        }
    }
    m
}
fn apply_allow(mask: u16, notes: &[u8]) -> u16 {
    let mut m = mask;
    for n in notes {
        m |= 1u16 << class_of(*n);
    }
    m
}

/// a new quantizer configured to the given scale, whatever scale `new()` starts with:
/// allow the wanted classes first (the scale can only grow), then forbid the rest (never empties it)
fn fresh_with(mask: u16) -> Quantizer {
    let mut q = real!(Quantizer::new());
    let allowed: Vec<Note> = (0..12u8).filter(|n| mask >> n & 1 == 1).map(Note::from).collect();
    let forbidden: Vec<Note> = (0..12u8).filter(|n| mask >> n & 1 == 0).map(Note::from).collect();
    if !allowed.is_empty() {
        real!(q.allow(&allowed));
    }
    if !forbidden.is_empty() {
        real!(q.forbid(&forbidden));
    }
    q
}

fn read_mask(q: &Quantizer) -> u16 {
    let mut got = 0u16;
    for n in 0..12u8 {
        if real!(q.is_allowed(Note::from(n))) {
            got |= 1 << n;
        }
    }
    got
}

pub struct Exec {
    q: Quantizer,
    mask: u16,
    prev: Option<u8>,
    last_v: Option<u32>,
    edited_since_convert: bool,
    // monotone chain
    mono: Option<(f32, u8)>,
    // noise band run: (boundary index, changes so far, last note)
    band: Option<(i32, u32, u8)>,
}

impl Exec {
    pub fn mask(&self) -> u16 {
        self.mask
    }
    pub fn prev(&self) -> Option<u8> {
        self.prev
    }
}

/// one conversion on the real quantizer, the scale model and the oracles
fn convert_step(ex: &mut Exec, bits: u32, ctx: &mut Ctx) {
        let v = f32::from_bits(bits);
        // "the input" of C09/C19 is the input after the documented clamp to [0, 10] V (C08 says so explicitly;
        // with the raw input the statement's window rule and its monotonicity consequence contradict each
        // other for inputs above 10 V, see DESIGN.md section 7)
        let v64 = if v.is_nan() { f64::NAN } else { (v as f64).max(0.0).min(10.0) };
        ctx.steps += 1;
        ctx.sim_ns += 1_000_000; // control-rate conversion, 1 kHz
        let c = real!(ex.q.convert(v));
        let note = c.note_num;
        let p = ex.prev;
        let mask = ex.mask;
        if v.is_nan() || v.is_infinite() {
            ctx.fault(F_NONFINITE_INPUT);
        } else if !(0.0..=10.0).contains(&v) {
            ctx.fault(F_OUT_OF_RANGE_INPUT);
        }
        if ex.edited_since_convert {
            ctx.fault(F_EDIT_BETWEEN_CONVERSIONS);
            if ex.last_v == Some(bits) && v >= 1.0 {
                ctx.probe(P_EDIT_BETWEEN_EQUAL_INPUTS_OCT_GE1);
            }
        }
        if mask.count_ones() <= 3 {
            ctx.probe(P_SPARSE_SCALE_CONVERSIONS);
        }

        // ---------------- C07
        ctx.check(7, "note_is_allowed_now", mask >> (note % 12) & 1 == 1, || {
            format!("convert({:e}) = note {} (pitch class {}) but the scale mask is {:012b}", v, note, note % 12, mask)
        });

        // ---------------- C09
        let mut kept_by_window = false;
        if !v.is_nan() {
            let mut ambiguous = false;
            let mut in_window = false;
            if let Some(p) = p {
                if mask >> (p % 12) & 1 == 1 {
                    let lo = p as f64 * SEMI - HYST;
                    let hi = p as f64 * SEMI + SEMI + HYST;
                    // the statement gives no precision for the window edges; the same 10 microvolts that C08 grants for ties
                    let margin = 1e-5;
                    if (v64 - lo).abs() < margin || (v64 - hi).abs() < margin {
                        ambiguous = true;
                    }
                    in_window = lo < v64 && v64 < hi;
                    if in_window && (v64 - lo < HYST || hi - v64 < HYST) {
                        ctx.probe(P_WINDOW_EDGE_ZONE);
                    }
                } else {
                    let lo = p as f64 * SEMI - HYST;
                    let hi = p as f64 * SEMI + SEMI + HYST;
                    if lo < v64 && v64 < hi {
                        ctx.probe(P_PREV_NOTE_FORBIDDEN_IN_WINDOW);
                    }
                }
            }
            if ambiguous {
                ctx.probe(P_AMBIGUOUS_EDGE);
            } else if in_window {
                let p = p.unwrap();
                if p >= 12 {
                    ctx.probe(P_WINDOW_HIT_OCT_GE1);
                }
                kept_by_window = true;
                ctx.check(9, "hysteresis_holds_note", note == p, || {
                    format!(
                        "previous note {} is allowed and input {:e} (clamped to [0,10]) lies inside its widened bucket ({:.6}, {:.6}) but the note changed to {}",
                        p,
                        v,
                        p as f64 * SEMI - HYST,
                        p as f64 * SEMI + SEMI + HYST,
                        note
                    )
                });
            } else {
                let mut twin = fresh_with(mask);
                let tn = real!(twin.convert(v)).note_num;
                ctx.probe(P_MEMORYLESS_COMPARISONS);
                ctx.check(9, "outside_window_is_memoryless", note == tn, || {
                    format!(
                        "input {:e} is outside the window of previous note {:?} (scale {:012b}); a quantizer without history reports {} but this one reports {}",
                        v, p, mask, tn, note
                    )
                });
            }
        }
        // scenario: non-decreasing inputs on a fixed scale give non-decreasing notes
        if v.is_nan() {
            ex.mono = None;
        } else {
            if let Some((pv, pn)) = ex.mono {
                if v >= pv {
                    ctx.probe(P_MONOTONE_CHAIN_STEPS);
                    ctx.check(9, "monotone_on_rising_input", note >= pn, || {
                        format!("scale {:012b} fixed, input rose {:e} -> {:e} but the note fell {} -> {}", mask, pv, v, pn, note)
                    });
                }
            }
            ex.mono = Some((v, note));
        }
        // scenario: noise smaller than the hysteresis width around a chromatic boundary: at most one change
        let mut band_now = None;
        if mask == 0xFFF && v.is_finite() && v64 > 0.04 && v64 < 9.96 {
            let nb = (v64 * 12.0).round();
            if (v64 - nb * SEMI).abs() < HYST - 1.1e-5 {
                band_now = Some(nb as i32);
            }
        }
        match (band_now, ex.band) {
            (Some(nb), Some((ob, ch, ln))) if nb == ob => {
                let ch2 = ch + (note != ln) as u32;
                ctx.probe(P_NOISE_BAND_CONVERSIONS);
                ctx.check(9, "noise_at_boundary_at_most_one_change", ch2 <= 1, || {
                    format!(
                        "inputs stayed within 1/120 V of the chromatic boundary {:.6} V but the note changed {} times (now {} -> {})",
                        nb as f64 * SEMI,
                        ch2,
                        ln,
                        note
                    )
                });
                ex.band = Some((nb, ch2, note));
            }
            (Some(nb), _) => {
                let first_changed = p.map(|p| p != note).unwrap_or(false) as u32;
                ex.band = Some((nb, first_changed, note));
            }
            (None, _) => ex.band = None,
        }

        // ---------------- C19
        let stair_expect = note as f32 / 12.0;
        // note/12 as an f32: two ulps of slack so that `note * (1/12)` is accepted as well
        let stair_ok = (c.stairstep as f64 - note as f64 / 12.0).abs() <= 2.0 * ulp32(stair_expect) + 1e-12;
        ctx.check(19, "stairstep_is_note_over_12", stair_ok, || {
            format!("note {} but stairstep {:e} (expected {:e})", note, c.stairstep, stair_expect)
        });
        if !v.is_nan() {
            let clamped = v.max(0.0).min(10.0);
            let sum64 = c.stairstep as f64 + c.fraction as f64;
            let sum32 = (c.stairstep + c.fraction) as f64;
            let close = |target: f32| {
                let tol = 2.0 * ulp32(target.abs().max(c.stairstep.abs()));
                (sum64 - target as f64).abs() <= tol || (sum32 - target as f64).abs() <= tol
            };
            let ok = if (0.0..=10.0).contains(&v) { close(v) } else { (v.is_finite() && close(v)) || close(clamped) };
            ctx.check(19, "stairstep_plus_fraction_reproduces_input", ok, || {
                format!("input {:e}: stairstep {:e} + fraction {:e} = {:e}", v, c.stairstep, c.fraction, sum64)
            });
            // precondition of the clause is observable: the window actually kept the previous note
            // "the hysteresis window kept the previous note": the previous note came back although a quantizer
            // without history would have reported another one, or the input is inside the window of the statement
            let kept = Some(note) == p && (kept_by_window || {
                let mut twin = fresh_with(mask);
                real!(twin.convert(v)).note_num != note
            });
            if kept {
                let f = c.fraction as f64;
                ctx.check(19, "fraction_range_when_window_kept_note", f >= -0.1 * SEMI - 1e-6 && f <= 1.1 * SEMI + 1e-6, || {
                    format!("hysteresis kept note {} for input {:e} but fraction is {:e} V ({:.4} semitones)", note, v, f, f * 12.0)
                });
            }
            if p.is_none() && mask == 0xFFF && (0.0..=10.0).contains(&v) {
                ctx.probe(P_FRESH_CHROMATIC);
                let f = c.fraction as f64;
                ctx.check_classed(
                    19,
                    "fraction_range_chromatic_no_history",
                    f >= 0.0 && f < SEMI + 1e-6,
                    || {
                        if (-5.0e-6..0.0).contains(&f) {
                            "chromatic_no_history_fraction_negative_by_at_most_5uV"
                        } else {
                            ""
                        }
                    },
                    || format!("chromatic scale, no history, input {:e} V: note {} fraction {:e} V, not in [0, 1/12)", v, note, f),
                );
            }
        }

        if p.map(|p| p != note).unwrap_or(false) {
            ctx.probe(P_NOTE_CHANGED);
        }
        let oct = if v.is_finite() { (v64.max(0.0).min(10.0)) as u32 } else { 11 };
        ctx.transition(
            1 | oct << 2
                | (kept_by_window as u32) << 6
                | (ex.edited_since_convert as u32) << 7
                | (mask.count_ones().min(12)) << 8
                | (p.map(|p| p != note).unwrap_or(false) as u32) << 12
                | (p.is_none() as u32) << 13,
        );
        ex.prev = Some(note);
        ex.last_v = Some(bits);
        ex.edited_since_convert = false;
}

impl Engine for QuantEngine {
    const NAME: &'static str = "quant";
    const PROBES: &'static [&'static str] = &[
        "fault_scale_edit_between_conversions",
        "fault_restart",
        "fault_out_of_range_input",
        "fault_nonfinite_input",
        "fault_forbid_everything_attempt",
        "fault_duplicate_or_oversize_note_args",
        "fault_noise_around_boundary",
        "fault_input_jump",
        "edit_between_equal_inputs_octave_ge1",
        "hysteresis_window_hit_octave_ge1",
        "previous_note_forbidden_while_input_in_its_window",
        "ambiguous_window_edge_not_asserted",
        "noise_band_conversions",
        "monotone_chain_steps",
        "fresh_chromatic_conversions",
        "memoryless_twin_comparisons",
        "conversions_in_hysteresis_edge_zone",
        "conversions_on_sparse_scale",
        "note_changed",
        "sweep_traces",
    ];
    const NFAULT: usize = 8;
    const COMPONENTS: &'static [(&'static str, &'static str)] = &[
        ("synth_utils::quantizer::Quantizer (+ heapless::Vec)", "real code"),
        ("fresh twin Quantizer configured with the same scale (memoryless reference)", "real code"),
        ("CV source, scale editor, restarter", "simulator stub (seeded scheduler)"),
        ("12-bit scale mask model, hysteresis window rule", "oracle written from the property statements"),
    ];
    type Cfg = Cfg;
    type Ev = Ev;
    type Exec = Exec;

    fn new_exec(_cfg: &Cfg, _ctx: &mut Ctx) -> Exec {
        // the power-on scale is observed, not assumed
        let q = real!(Quantizer::new());
        let mask = read_mask(&q);
        Exec { q, mask: if mask != 0 { mask } else { 0xFFF }, prev: None, last_v: None, edited_since_convert: false, mono: None, band: None }
    }

    fn step(ex: &mut Exec, ev: &Ev, ctx: &mut Ctx) {
        match ev {
            Ev::Convert(bits) => convert_step(ex, *bits, ctx),
            Ev::Hold(bits, n) => {
                for i in 0..*n {
                    convert_step(ex, *bits, ctx);
                    if i & 0xffff == 0xffff {
                        heartbeat();
                    }
                }
            }
            Ev::Allow(ns) | Ev::Forbid(ns) => {
                let forbid = matches!(ev, Ev::Forbid(_));
                let notes: Vec<Note> = ns.iter().map(|n| Note::from(*n)).collect();
                let before = ex.mask;
                if forbid {
                    real!(ex.q.forbid(&notes));
                    ex.mask = apply_forbid(ex.mask, ns);
                    let mut tmp = before;
                    for n in ns {
                        tmp &= !(1u16 << class_of(*n));
                    }
                    if tmp == 0 {
                        ctx.fault(F_FORBID_EVERYTHING);
                    }
                } else {
                    real!(ex.q.allow(&notes));
                    ex.mask = apply_allow(ex.mask, ns);
                }
                if ns.iter().any(|n| *n > 11) || {
                    let mut s = ns.clone();
                    s.sort();
                    s.windows(2).any(|w| w[0] == w[1])
                } {
                    ctx.fault(F_ODD_NOTE_ARGS);
                }
                let mut got = 0u16;
                for n in 0..12u8 {
                    if real!(ex.q.is_allowed(Note::from(n))) {
                        got |= 1 << n;
                    }
                }
                let want = ex.mask;
                ctx.check(7, "scale_matches_edits", got == want, || {
                    format!(
                        "{} {:?} on scale {:012b}: is_allowed() reports {:012b}, documented rule gives {:012b}",
                        if forbid { "forbid" } else { "allow" },
                        ns,
                        before,
                        got,
                        want
                    )
                });
                ctx.check(7, "scale_never_empty", got != 0, || format!("after {:?} no pitch class is allowed", ns));
                // follow the observed scale so that a scale-edit defect does not cascade into every later conversion
                if got != 0 {
                    ex.mask = got;
                }
                ex.edited_since_convert = true;
                ex.mono = None;
                ex.band = None;
                ctx.transition(2 | (forbid as u32) << 2 | (ex.mask.count_ones()) << 8 | (ns.len().min(15) as u32) << 12);
            }
            Ev::Restart => {
                ctx.fault(F_RESTART);
                ex.q = fresh_with(ex.mask);
                ex.prev = None;
                ex.mono = None;
                ex.band = None;
                ex.last_v = None;
                ctx.transition(3 | (ex.mask.count_ones()) << 8);
            }
        }
    }

    fn finish(_ex: &mut Exec, _ctx: &mut Ctx) {}

    fn run(rng: &mut Rng, prof: &Profile, run: u64, sink: &mut Sink<Self>) {
        if !prof.chaos && run % 16 == 15 {
            sweep_run(rng, sink);
        } else {
            random_run(rng, prof, sink);
        }
    }

    fn cfg_json(_c: &Cfg) -> J {
        J::obj(vec![])
    }
    fn cfg_parse(_j: &J) -> Result<Cfg, String> {
        Ok(Cfg {})
    }
    fn ev_json(e: &Ev) -> J {
        match e {
            Ev::Convert(b) => J::Arr(vec![J::s("convert"), J::hex32(*b), J::Num(f32::from_bits(*b) as f64)]),
            Ev::Hold(b, n) => J::Arr(vec![J::s("convert_repeated"), J::hex32(*b), J::u(*n as u64), J::Num(f32::from_bits(*b) as f64)]),
            Ev::Allow(ns) => J::Arr(vec![J::s("allow"), J::Arr(ns.iter().map(|n| J::u(*n as u64)).collect())]),
            Ev::Forbid(ns) => J::Arr(vec![J::s("forbid"), J::Arr(ns.iter().map(|n| J::u(*n as u64)).collect())]),
            Ev::Restart => J::Arr(vec![J::s("restart")]),
        }
    }
    fn ev_parse(j: &J) -> Result<Ev, String> {
        let (n, a) = ev_name(j)?;
        let list = |a: &[J]| -> Result<Vec<u8>, String> {
            let mut v = Vec::new();
            for x in arg(a, 0)?.as_arr().ok_or("note list expected")? {
                v.push(ju64(x)? as u8);
            }
            Ok(v)
        };
        Ok(match n {
            "convert" => Ev::Convert(arg(a, 0)?.as_hex32().ok_or("bad bits")?),
            "convert_repeated" => Ev::Hold(arg(a, 0)?.as_hex32().ok_or("bad bits")?, ju64(arg(a, 1)?)? as u32),
            "allow" => Ev::Allow(list(a)?),
            "forbid" => Ev::Forbid(list(a)?),
            "restart" => Ev::Restart,
            x => return Err(format!("unknown quant event {}", x)),
        })
    }
    fn shrink_ev(e: &Ev) -> Vec<Ev> {
        match e {
            Ev::Convert(b) => {
                let x = f32::from_bits(*b);
                let mut v = Vec::new();
                if x.is_finite() {
                    let r = (x * 12.0).round() / 12.0;
                    if r.to_bits() != *b {
                        v.push(Ev::Convert(r.to_bits()));
                    }
                    for keep in [8u32, 12, 16] {
                        let m = b & !((1u32 << (23 - keep)) - 1);
                        if m != *b {
                            v.push(Ev::Convert(m));
                        }
                    }
                }
                v
            }
            Ev::Allow(ns) | Ev::Forbid(ns) => {
                let mut v = Vec::new();
                if ns.len() > 1 {
                    for i in 0..ns.len() {
                        let mut c = ns.clone();
                        c.remove(i);
                        v.push(if matches!(e, Ev::Allow(_)) { Ev::Allow(c) } else { Ev::Forbid(c) });
                    }
                }
                v
            }
            Ev::Hold(b, n) if *n > 1 => vec![Ev::Hold(*b, 1), Ev::Hold(*b, n / 2), Ev::Hold(*b, n - 1)],
            Ev::Hold(..) => Vec::new(),
            Ev::Restart => Vec::new(),
        }
    }
}

// ---------------------------------------------------------------------------------------------

fn gen_note_list(rng: &mut Rng) -> Vec<u8> {
    let n = match rng.below(6) {
        0 => 1,
        1 => 2,
        2 => rng.range(3, 6),
        3 => rng.range(7, 11),
        4 => 12,
        _ => rng.range(1, 14),
    } as usize;
    let mut v: Vec<u8> = Vec::new();
    if n == 12 && rng.chance(0.7) {
        // every pitch class, in a seeded order (a forbid of this list tries to empty the scale)
        v = (0..12).collect();
        for i in (1..12).rev() {
            let j = rng.usize(i + 1);
            v.swap(i, j);
        }
        return v;
    }
    for _ in 0..n {
        let x = match rng.below(12) {
            0 => 12 + rng.below(244) as u8, // Note::from clamps these to B
            _ => rng.below(12) as u8,
        };
        v.push(x);
    }
    v
}

fn gen_edit(rng: &mut Rng, t: &mut Trace<QuantEngine>) {
    let mask = t.exec().mask();
    let r = rng.below(10);
    if r < 4 {
        t.push(Ev::Forbid(gen_note_list(rng)));
    } else if r < 7 {
        t.push(Ev::Allow(gen_note_list(rng)));
    } else if r < 8 {
        // forbid exactly the previous note's pitch class
        if let Some(p) = t.exec().prev() {
            t.push(Ev::Forbid(vec![p % 12]));
        } else {
            t.push(Ev::Forbid(gen_note_list(rng)));
        }
    } else if r < 9 {
        // jump to a seeded sparse scale: forbid all but 1..3 classes
        let keep: Vec<u8> = (0..rng.range(1, 3)).map(|_| rng.below(12) as u8).collect();
        let f: Vec<u8> = (0..12u8).filter(|n| !keep.contains(n)).collect();
        t.push(Ev::Allow(keep));
        t.push(Ev::Forbid(f));
    } else {
        // back to chromatic
        let missing: Vec<u8> = (0..12u8).filter(|n| mask >> n & 1 == 0).collect();
        t.push(Ev::Allow(if missing.is_empty() { vec![0] } else { missing }));
    }
}

fn gen_voltage(rng: &mut Rng) -> f32 {
    match rng.below(12) {
        0 => {
            // exactly on / a hair beside a semitone
            let n = rng.below(121) as f64;
            (n / 12.0 + *rng.pick(&[0.0, 1e-6, -1e-6, 3e-6, -3e-6, 1e-5, -1e-5, 4e-5, -4e-5])) as f32
        }
        1 => *rng.pick(&[0.0f32, 10.0, -0.0, 1e-7, 9.999999, 10.000001, -1e-6, 5.0, 1.0, 0.5]),
        2 => rng.uniform(-0.6, 10.6) as f32,
        _ => rng.uniform(0.0, 10.0) as f32,
    }
}

fn random_run(rng: &mut Rng, prof: &Profile, sink: &mut Sink<QuantEngine>) {
    let chaos = prof.chaos;
    let focus = prof.focus;
    let mut t = sink.begin(Cfg {});
    let p_edit = *rng.pick(&[0.0, 0.03, 0.1, 0.3]);
    let segments = 3 + rng.usize(if prof.tier == Tier::Thorough { 12 } else { 8 });
    if rng.chance(0.7) {
        for _ in 0..rng.range(1, 3) {
            gen_edit(rng, &mut t);
        }
    }
    for _ in 0..segments {
        if t.dead {
            break;
        }
        let kind = if rng.chance(0.015) {
            7
        } else if rng.chance(0.015) {
            8
        } else if chaos {
            *rng.pick(&[0usize, 2, 4, 6, 6, 6])
        } else if focus == 19 {
            *rng.pick(&[0usize, 1, 2, 3, 4, 5, 5, 5])
        } else {
            rng.usize(6)
        };
        match kind {
            0 => {
                // slow rising ramp (sometimes falling)
                let mut v = rng.uniform(-0.2, 10.0);
                let step = rng.log_uniform(1e-6, 0.03) * if rng.chance(0.15) { -1.0 } else { 1.0 };
                for _ in 0..rng.range(5, 60) {
                    t.push(Ev::Convert((v as f32).to_bits()));
                    v += step * rng.uniform(0.0, 2.0);
                    if rng.chance(p_edit) {
                        gen_edit(rng, &mut t);
                    }
                }
            }
            1 => {
                // noise around a chromatic boundary, amplitude below or just above the hysteresis width
                let nb = rng.range(1, 119) as f64;
                let amp = match rng.below(4) {
                    0 => HYST * 0.3,
                    1 => HYST * 0.95,
                    2 => HYST * 1.3,
                    _ => rng.log_uniform(1e-6, HYST),
                };
                t.ctx.fault(F_NOISE_AT_BOUNDARY);
                if rng.chance(0.5) {
                    let missing: Vec<u8> = (0..12u8).filter(|n| t.exec().mask() >> n & 1 == 0).collect();
                    if !missing.is_empty() {
                        t.push(Ev::Allow(missing));
                    }
                }
                for _ in 0..rng.range(4, 40) {
                    let v = nb / 12.0 + rng.uniform(-amp, amp);
                    t.push(Ev::Convert((v as f32).to_bits()));
                }
            }
            2 => {
                // hold the input, edit the scale in between (the C07 history)
                let v = if rng.chance(0.8) { rng.uniform(1.0, 10.0) } else { rng.uniform(0.0, 1.0) } as f32;
                t.push(Ev::Convert(v.to_bits()));
                for _ in 0..rng.range(1, 4) {
                    // one to three edits between two conversions of the same input; often the first one
                    // forbids exactly the pitch class that is sounding
                    if rng.chance(0.5) {
                        if let Some(p) = t.exec().prev() {
                            t.push(Ev::Forbid(vec![p % 12]));
                        }
                    }
                    for _ in 0..rng.range(1, 3) {
                        gen_edit(rng, &mut t);
                    }
                    t.push(Ev::Convert(v.to_bits()));
                    if rng.chance(0.3) {
                        let w = v + rng.uniform(-0.01, 0.01) as f32;
                        t.push(Ev::Convert(w.to_bits()));
                    }
                }
            }
            3 => {
                // probe the window edges of the previous note
                if let Some(p) = t.exec().prev() {
                    let lo = p as f64 / 12.0 - HYST;
                    let hi = p as f64 / 12.0 + SEMI + HYST;
                    for _ in 0..rng.range(2, 10) {
                        let e = if rng.chance(0.5) { lo } else { hi };
                        let d = *rng.pick(&[5e-6, -5e-6, 2e-5, -2e-5, 1e-4, -1e-4, 1e-3, -1e-3, 5e-3, -5e-3]);
                        t.push(Ev::Convert(((e + d) as f32).to_bits()));
                        if rng.chance(p_edit) {
                            gen_edit(rng, &mut t);
                        }
                    }
                } else {
                    t.push(Ev::Convert(gen_voltage(rng).to_bits()));
                }
            }
            4 => {
                // jumps anywhere
                t.ctx.fault(F_JUMP);
                for _ in 0..rng.range(2, 20) {
                    t.push(Ev::Convert(gen_voltage(rng).to_bits()));
                    if rng.chance(p_edit) {
                        gen_edit(rng, &mut t);
                    }
                }
            }
            7 => {
                // long-running panel activity between two conversions of the same input: a power-of-two-ish
                // number of scale edits whose net effect is to forbid the sounding pitch class
                let v = rng.uniform(1.0, 10.0) as f32;
                t.push(Ev::Convert(v.to_bits()));
                if let Some(p) = t.exec().prev() {
                    let pc = p % 12;
                    let d = (pc + 1 + rng.below(11) as u8) % 12;
                    let e = (pc + 1 + rng.below(11) as u8) % 12;
                    let n = rng.near_pow2(false);
                    t.push(Ev::Allow(vec![d, e]));
                    t.push(Ev::Forbid(vec![pc]));
                    let mut i = 2;
                    while i < n {
                        // toggles of other classes; the scale never gets empty because e stays allowed
                        if d != e {
                            t.push(if i % 2 == 0 { Ev::Forbid(vec![d]) } else { Ev::Allow(vec![d]) });
                        } else {
                            t.push(Ev::Allow(vec![d]));
                        }
                        i += 1;
                    }
                    t.push(Ev::Convert(v.to_bits()));
                    t.push(Ev::Convert((v + 0.001).to_bits()));
                }
            }
            8 => {
                // a key held for a long time (a power-of-two-ish number of conversions inside the note's window),
                // then the player switches the sounding pitch class off
                let note = rng.range(12, 119) as f64;
                let v0 = note / 12.0 + SEMI * 0.5;
                if rng.chance(0.4) {
                    // a steady input for a very long time: 2^16 / 2^20 conversions, the last stretch in the hysteresis margin
                    let p_million = if prof.tier == Tier::Thorough { 0.01 } else { 0.003 };
                    let big = rng.chance(0.2);
                    let n = if rng.chance(p_million) { (1u64 << 20) + rng.below(64) } else { rng.near_pow2(big) };
                    t.push(Ev::Convert((v0 as f32).to_bits()));
                    let margin = if rng.chance(0.5) { note / 12.0 + SEMI * 1.05 } else { note / 12.0 - SEMI * 0.05 };
                    let vm = if rng.chance(0.6) { margin } else { v0 };
                    t.push(Ev::Hold((vm as f32).to_bits(), n as u32));
                    t.push(Ev::Hold((vm as f32).to_bits(), rng.range(1, 40) as u32));
                }
                let n = rng.near_pow2(false);
                for _ in 0..n {
                    let v = v0 + rng.uniform(-0.3, 0.3) * SEMI;
                    t.push(Ev::Convert((v as f32).to_bits()));
                }
                if let Some(p) = t.exec().prev() {
                    t.push(Ev::Forbid(vec![p % 12]));
                    for _ in 0..rng.range(1, 4) {
                        let v = v0 + rng.uniform(-0.3, 0.3) * SEMI;
                        t.push(Ev::Convert((v as f32).to_bits()));
                    }
                }
            }
            5 => {
                // power cycle then convert: the history-free case
                for _ in 0..rng.range(1, 8) {
                    t.push(Ev::Restart);
                    t.push(Ev::Convert(gen_voltage(rng).to_bits()));
                }
            }
            _ => {
                // chaos: any bit pattern, NaN and infinities included
                for _ in 0..rng.range(2, 30) {
                    let b = match rng.below(5) {
                        0 => *rng.pick(&[f32::NAN, f32::INFINITY, f32::NEG_INFINITY, f32::MAX, f32::MIN, -f32::NAN]),
                        1 => f32::from_bits(rng.next() as u32),
                        2 => *rng.pick(&[4294.967f32, 4294.968, 4295.0, 1e7, -1e7, 2147.4836, 2147.4837]),
                        _ => gen_voltage(rng),
                    };
                    t.push(Ev::Convert(b.to_bits()));
                    if rng.chance(0.2) {
                        gen_edit(rng, &mut t);
                    }
                    if rng.chance(0.05) {
                        t.push(Ev::Forbid(Vec::new()));
                        t.push(Ev::Allow(Vec::new()));
                    }
                }
            }
        }
        if rng.chance(0.08) {
            t.push(Ev::Restart);
        }
    }
    sink.end(t);
}

/// single-fault sweep: a seeded short input walk on a seeded scale; one scale edit (every single pitch class
/// forbidden / allowed, or a power cycle) injected at every position of the walk
fn sweep_run(rng: &mut Rng, sink: &mut Sink<QuantEngine>) {
    let keep: Vec<u8> = {
        let n = rng.range(1, 12);
        let mut v: Vec<u8> = (0..12).collect();
        for i in (1..12).rev() {
            let j = rng.usize(i + 1);
            v.swap(i, j);
        }
        v.truncate(n as usize);
        v
    };
    let forbidden: Vec<u8> = (0..12u8).filter(|n| !keep.contains(n)).collect();
    let mut v = rng.uniform(0.0, 9.5);
    let step = rng.log_uniform(1e-3, 0.06) * if rng.chance(0.3) { -1.0 } else { 1.0 };
    let walk: Vec<f32> = (0..rng.range(4, 9))
        .map(|_| {
            v += step * rng.uniform(0.0, 2.0);
            v as f32
        })
        .collect();
    for pos in 0..=walk.len() {
        for edit in 0..25u8 {
            let mut t = sink.begin(Cfg {});
            t.ctx.probe(P_SWEEP_TRACES);
            if !forbidden.is_empty() {
                t.push(Ev::Forbid(forbidden.clone()));
            }
            for (i, x) in walk.iter().enumerate() {
                if i == pos {
                    inject(&mut t, edit);
                }
                t.push(Ev::Convert(x.to_bits()));
            }
            if pos == walk.len() {
                inject(&mut t, edit);
                t.push(Ev::Convert(walk[walk.len() - 1].to_bits()));
            }
            sink.end(t);
        }
    }
    fn inject(t: &mut Trace<QuantEngine>, edit: u8) {
        match edit {
            0..=11 => t.push(Ev::Forbid(vec![edit])),
            12..=23 => t.push(Ev::Allow(vec![edit - 12])),
            _ => t.push(Ev::Restart),
        }
    }
}

