//! Engine `glide`: a sample clock, a CV source and a panel task (set_time at any sample) around the real
//! `GlideProcessor`.  Decides C13 (no overshoot / ringing, convergence) and C14 (time means what it says)
//! + part of C17.

use crate::core::*;
use crate::json::J;
use crate::real;
use crate::rng::Rng;
use synth_utils::glide_processor::GlideProcessor;

pub struct GlideEngine;

#[derive(Clone, Debug)]
pub struct Cfg {
    pub fs: f32,
}

#[derive(Clone, Debug)]
pub enum Ev {
    /// process(x) n times
    Hold(u32, u32),
    SetTime(u32),
    Restart,
}

const F_SET_TIME_MID_GLIDE: usize = 0;
const F_SET_TIME_FAST_MID_GLIDE: usize = 1;
const F_SET_TIME_IN_DEAD_BAND: usize = 2;
const F_TIME_ABOVE_10S: usize = 3;
const F_TIME_ZERO_OR_SUBSAMPLE: usize = 4;
const F_INPUT_JUMP_MID_GLIDE: usize = 5;
const F_RESTART: usize = 6;
const P_LANDMARK_T10: usize = 7;
const P_LANDMARK_T: usize = 8;
const P_SETTLE_WINDOWS: usize = 9;
const P_FAST_SETTLE_CHECKS: usize = 10;
const P_DEAD_BAND_AMBIGUOUS: usize = 11;
const P_TIME_BETWEEN_2_AND_4_SAMPLES: usize = 12;
const P_TIME_BETWEEN_4_AND_100_SAMPLES: usize = 13;
const P_MONOTONE_CHECKS: usize = 14;
const P_TWIN_SAMPLES: usize = 15;
const P_NEG_ZERO_TIME: usize = 16;
const P_SWEEP_TRACES: usize = 17;
const P_FIRST_REQUEST_FORCED: usize = 18;

const EPS24: f64 = 5.960464477539063e-8; // 2^-24

pub struct Exec {
    fs: f32,
    a: GlideProcessor,
    b: GlideProcessor, // receives only the calls the statement says are honoured
    c: GlideProcessor, // receives min(t, 10)
    twins_ok: bool,
    /// a set_time call fell on the edge of the 0.05 s dead band: the statement leaves open which time is in effect
    t_unknown: bool,
    t_eff: Option<f32>,
    /// other times that may be in effect instead of `t_eff`: a request inside the 0.05 s band *may* be ignored (the
    /// statement only promises that requests outside it are honoured), so after one the time in effect is one of several
    t_alt: Vec<f32>,
    gain_max: f64,
    max_abs_x: f64,
    hull_lo: f64,
    hull_hi: f64,
    // held-input tracking
    x_cur: Option<f32>,
    hold_n: u64,
    since_change: u64, // samples since the last input change or honoured set_time
    y_last: f32,
    err_prev: f64,
    settle_start_err: f64,
    // landmark tracking
    lm: Option<Landmark>,
    settled: bool,
    samples: u64,
}

struct Landmark {
    y0: f64,
    x: f64,
    n: u64,
    /// one entry per time that may be in effect
    hyp: Vec<LmHyp>,
}

struct LmHyp {
    n1: u64,
    n2: u64,
    /// coverage one sample before t/10 (the statement's instant falls between samples)
    c_before: f64,
    /// Some(false) once this reading has failed one of its two landmarks
    ok1: Option<bool>,
    ok2: Option<bool>,
    c1: f64,
    c2: f64,
}

impl Exec {
    pub fn t_eff(&self) -> Option<f32> {
        self.t_eff
    }
    pub fn err(&self) -> f64 {
        self.err_prev
    }
    pub fn y(&self) -> f32 {
        self.y_last
    }
    /// effective time after the documented clamps, in samples
    fn n_eff(&self) -> f64 {
        match self.t_eff {
            None => 0.0,
            Some(t) => (t.min(10.0).max(0.0) as f64) * self.fs as f64,
        }
    }
    fn is_fast(&self) -> bool {
        self.n_eff() < 2.0
    }
    /// every time that may be in effect (empty before the first request)
    fn hyps(&self) -> Vec<f32> {
        let mut v = Vec::new();
        if let Some(t) = self.t_eff {
            v.push(t);
            v.extend_from_slice(&self.t_alt);
        }
        v
    }
    fn n_of(&self, t: f32) -> f64 {
        (t.min(10.0).max(0.0) as f64) * self.fs as f64
    }
    fn n_max(&self) -> f64 {
        self.hyps().iter().map(|t| self.n_of(*t)).fold(0.0, f64::max)
    }
    fn all_fast(&self) -> bool {
        self.hyps().iter().all(|t| self.n_of(*t) < 2.0)
    }
    /// 1/(1-p) of the ideal one-pole for a time setting (1 for settings faster than 4 samples)
    fn gain_for(&self, t: f32) -> f64 {
        let n = (t.min(10.0).max(0.0) as f64) * self.fs as f64;
        if n < 4.0 {
            return 1.0;
        }
        let w = (std::f64::consts::PI / n).tan();
        let p = (1.0 - w) / (1.0 + w);
        1.0 / (1.0 - p)
    }
    fn tol(&self) -> f64 {
        8.0 * EPS24 * self.max_abs_x.max(1e-30) * self.gain_max
    }
    /// a time that is more than 0.05 s away from `t` under every reading of "time in effect" (raw or clamped to
    /// 10 s); a twin is first moved there so that its own dead band cannot swallow the call that follows
    fn far(t: f32) -> f32 {
        if t > 5.0 {
            1.0
        } else {
            9.0
        }
    }

    #[inline(always)]
    fn one(&mut self, x: f32, ctx: &mut Ctx) {
        let y = real!(self.a.process(x));
        ctx.steps += 1;
        self.samples += 1;
        let twins = if self.twins_ok { Some((real!(self.b.process(x)), real!(self.c.process(x)))) } else { None };
        let x64 = x as f64;
        let y64 = y as f64;
        let changed = self.x_cur.map(|c| c.to_bits() != x.to_bits()).unwrap_or(true);
        if x64.abs() > self.max_abs_x {
            self.max_abs_x = x64.abs();
        }
        if x64 < self.hull_lo {
            self.hull_lo = x64;
        }
        if x64 > self.hull_hi {
            self.hull_hi = x64;
        }
        if self.t_eff.is_none() && !self.t_unknown {
            // processed before any set_time: the power-on time constant is not specified, assume the slowest
            let g = self.gain_for(10.0);
            if g > self.gain_max {
                self.gain_max = g;
            }
        }
        let tol = self.tol();
        if let Some((yb, yc)) = twins {
            // "behaves like": equal up to the f32 resolution of the filter (two code paths, or a coefficient set twice,
            // may differ in the last bits), not bit for bit
            ctx.probe(P_TWIN_SAMPLES);
            ctx.check(14, "dead_band_twin", (y as f64 - yb as f64).abs() <= tol, || {
                format!(
                    "output {:e} differs from the twin that received exactly the set_time calls the 0.05 s rule obliges to honour ({:e})",
                    y, yb
                )
            });
            ctx.check(14, "above_10s_twin", (y as f64 - yc as f64).abs() <= tol, || {
                format!("output {:e} differs from the twin that received min(t, 10 s) instead of t ({:e})", y, yc)
            });
        }
        // ---------------- C13: stays inside the hull of 0 and the inputs seen so far
        ctx.check(13, "inside_input_hull", y64 >= self.hull_lo - tol && y64 <= self.hull_hi + tol, || {
            format!(
                "output {:e} left the range [{:e}, {:e}] spanned by 0 and the inputs so far (tolerance {:e})",
                y, self.hull_lo, self.hull_hi, tol
            )
        });
        let err = y64 - x64;
        if changed {
            if self.x_cur.is_some() && self.err_prev.abs() > tol * 4.0 + 1e-6 * self.max_abs_x {
                ctx.fault(F_INPUT_JUMP_MID_GLIDE);
            }
            // ---------------- C14 landmarks: a step after a settled hold
            self.lm = None;
            let hy = self.hyps();
            if self.settled && !self.t_unknown && !hy.is_empty() && hy.iter().all(|t| self.n_of(*t) >= 100.0) {
                let y0 = self.y_last as f64;
                let step = x64 - y0;
                if step.abs() > 0.0 && tol / step.abs() <= 0.02 {
                    // "t/10 seconds later" and "t seconds later" fall between two samples: the 40..55 % landmark is
                    // judged over the samples on either side of t/10, the 99.5 % landmark on the first sample at or after t
                    let hyp = hy
                        .iter()
                        .map(|t| {
                            let n = self.n_of(*t);
                            LmHyp { n1: (n / 10.0).round() as u64, n2: n.ceil() as u64 + 1, c_before: 0.0, ok1: None, ok2: None, c1: 0.0, c2: 0.0 }
                        })
                        .collect();
                    self.lm = Some(Landmark { y0, x: x64, n: 0, hyp });
                }
            }
            self.hold_n = 1;
            self.since_change = 1;
            self.settle_start_err = (x64 - self.y_last as f64).abs();
            self.settled = false;
        } else {
            self.hold_n += 1;
            self.since_change += 1;
            if self.hold_n >= 2 {
                // ---------------- C13: monotone approach, no oscillation around a held target
                ctx.probe(P_MONOTONE_CHECKS);
                let ep = self.err_prev;
                ctx.check(13, "no_oscillation_around_target", !(err * ep < 0.0 && err.abs() > tol && ep.abs() > tol), || {
                    format!("input held at {:e}: output error changed sign {:e} -> {:e} (tolerance {:e})", x, ep, err, tol)
                });
                ctx.check(13, "monotone_approach", err.abs() <= ep.abs() + tol, || {
                    format!("input held at {:e}: distance to target grew {:e} -> {:e} (tolerance {:e})", x, ep.abs(), err.abs(), tol)
                });
            }
        }
        let mut lm_done = false;
        if let Some(lm) = self.lm.as_mut() {
            lm.n += 1;
            let c = (y64 - lm.y0) / (lm.x - lm.y0);
            let slack = tol / (lm.x - lm.y0).abs();
            for h in lm.hyp.iter_mut() {
                if lm.n + 1 == h.n1 {
                    h.c_before = c;
                }
                if lm.n == h.n1 + 1 {
                    // coverage only grows: somewhere between the samples around t/10 it was inside [40 %, 55 %]
                    ctx.probe(P_LANDMARK_T10);
                    h.c1 = c;
                    h.ok1 = Some(c >= 0.40 - slack && h.c_before <= 0.55 + slack);
                }
                if lm.n == h.n2 {
                    ctx.probe(P_LANDMARK_T);
                    h.c2 = c;
                    h.ok2 = Some(c >= 0.995 - slack);
                }
            }
            // a violation only if every time that may be in effect has failed one of its landmarks
            if lm.hyp.iter().all(|h| h.ok1 == Some(false) || h.ok2 == Some(false)) {
                let (y0, xx) = (lm.y0, lm.x);
                let h = &lm.hyp[0];
                let nh = lm.hyp.len();
                if lm.hyp.iter().all(|h| h.ok1 == Some(false)) {
                    let (n1, cb, c1) = (h.n1, h.c_before, h.c1);
                    ctx.check(14, "covers_40_to_55_percent_after_t_over_10", false, || {
                        format!(
                            "step {:e} -> {:e}: around t/10 = {} samples the output covered {:.4} .. {:.4} of the step ({} time(s) may be in effect, none fits)",
                            y0, xx, n1, cb, c1, nh
                        )
                    });
                } else {
                    let (n2, c2) = (h.n2, lm.hyp.iter().map(|h| h.c2).fold(0.0, f64::max));
                    ctx.check(14, "covers_99_5_percent_after_t", false, || {
                        format!(
                            "step {:e} -> {:e}: after t = {} samples the output covered only {:.5} of the step ({} time(s) may be in effect, none fits)",
                            y0, xx, n2, c2, nh
                        )
                    });
                }
                lm_done = true;
            } else if lm.hyp.iter().all(|h| h.ok2.is_some()) {
                // at least one reading passed both landmarks
                ctx.check(14, "covers_40_to_55_percent_after_t_over_10", true, String::new);
                ctx.check(14, "covers_99_5_percent_after_t", true, String::new);
                lm_done = true;
            }
        }
        if lm_done {
            self.lm = None;
        }
        // ---------------- C13 bounded settling; C14 fastest response
        // the longest of the times that may be in effect decides by when the output must have settled
        let n_eff = self.n_max();
        let window = (3.0 * n_eff) as u64 + 16;
        if self.since_change == window && !self.t_unknown && self.t_eff.is_some() {
            ctx.probe(P_SETTLE_WINDOWS);
            let lim = tol + 0.005 * self.settle_start_err;
            ctx.check(13, "settles_on_held_input", err.abs() <= lim, || {
                format!(
                    "input held at {:e} for {} samples (3 t + 16) with no parameter change: still {:e} away (allowed {:e})",
                    x, window, err, lim
                )
            });
        }
        if self.since_change >= window {
            self.settled = err.abs() <= tol + 0.005 * self.settle_start_err + 1e-7 * self.max_abs_x;
        }
        if self.all_fast() && self.since_change == 8 && !self.t_unknown && self.t_eff.is_some() {
            ctx.probe(P_FAST_SETTLE_CHECKS);
            // "settled": the one quantified notion of the statements, 99.5 % of the way
            let lim = tol + 0.005 * self.settle_start_err + 1e-30;
            let t = self.t_eff;
            ctx.check(14, "fastest_response_settles_in_8_samples", err.abs() <= lim, || {
                format!(
                    "time setting {:?} s is shorter than two samples, input held at {:e} for 8 samples, output still {:e} away",
                    t, x, err
                )
            });
        }
        self.x_cur = Some(x);
        self.y_last = y;
        self.err_prev = err;
    }
}

impl Engine for GlideEngine {
    const NAME: &'static str = "glide";
    const PROBES: &'static [&'static str] = &[
        "fault_set_time_mid_glide",
        "fault_set_time_to_fast_while_far_from_target",
        "fault_set_time_inside_dead_band",
        "fault_time_above_10s",
        "fault_time_zero_or_below_two_samples",
        "fault_input_jump_mid_glide",
        "fault_restart",
        "landmark_t_over_10_checked",
        "landmark_t_checked",
        "settle_windows_checked",
        "fast_settle_checked",
        "dead_band_edge_ambiguous_twins_suspended",
        "time_between_2_and_4_samples_in_effect",
        "time_between_4_and_100_samples_in_effect",
        "monotone_approach_checks",
        "twin_samples_compared",
        "negative_zero_time",
        "sweep_traces",
        "first_request_after_power_on_preceded_by_far_request",
    ];
    const NFAULT: usize = 7;
    const COMPONENTS: &'static [(&'static str, &'static str)] = &[
        ("synth_utils::glide_processor::GlideProcessor (+ biquad DirectForm1 / coefficient design)", "real code"),
        ("two lock-step twin GlideProcessors (honoured-calls-only, min(t,10))", "real code"),
        ("sample clock, CV source, panel task, restarter", "simulator stub (seeded scheduler)"),
        ("dead-band rule, ideal one-pole (tolerances, landmarks, settle windows)", "oracle written from the property statements"),
    ];
    type Cfg = Cfg;
    type Ev = Ev;
    type Exec = Exec;

    fn new_exec(cfg: &Cfg, _ctx: &mut Ctx) -> Exec {
        Exec {
            fs: cfg.fs,
            a: real!(GlideProcessor::new(cfg.fs)),
            b: real!(GlideProcessor::new(cfg.fs)),
            c: real!(GlideProcessor::new(cfg.fs)),
            twins_ok: true,
            t_unknown: false,
            t_eff: None,
            t_alt: Vec::new(),
            gain_max: 1.0,
            max_abs_x: 0.0,
            hull_lo: 0.0,
            hull_hi: 0.0,
            x_cur: None,
            hold_n: 0,
            since_change: 0,
            y_last: 0.0,
            err_prev: 0.0,
            settle_start_err: 0.0,
            lm: None,
            settled: false,
            samples: 0,
        }
    }

    fn step(ex: &mut Exec, ev: &Ev, ctx: &mut Ctx) {
        match ev {
            Ev::Hold(bits, n) => {
                let x = f32::from_bits(*bits);
                ctx.sim_ns += (*n as f64 * 1e9 / ex.fs as f64) as u64;
                for i in 0..*n {
                    ex.one(x, ctx);
                    if i & 0xffff == 0xffff {
                        heartbeat();
                    }
                }
                let rel = if ex.max_abs_x > 0.0 { (ex.err_prev.abs() / ex.max_abs_x * 8.0).min(7.0) as u32 } else { 0 };
                ctx.transition(1 | rel << 3 | ((*n).min(63)) << 6 | (ex.is_fast() as u32) << 12);
            }
            Ev::SetTime(bits) => {
                let t = f32::from_bits(*bits);
                if ex.t_eff.is_none() && !ex.t_unknown && t.is_finite() && t >= 0.0 {
                    // first request since power-on: which time is in effect at power-on is not specified, so the 0.05 s
                    // rule allows this call to be swallowed if the default happens to lie next to it.  The panel task
                    // therefore first requests a time far away: whichever default is in effect, at most one of the two
                    // calls can fall into a dead band, and afterwards `t` is in effect under every reading.
                    real!(ex.a.set_time(Exec::far(t)));
                    ctx.probe(P_FIRST_REQUEST_FORCED);
                }
                real!(ex.a.set_time(t));
                // Which times may be in effect after this call?  The statement obliges the processor to honour a request
                // that is more than 0.05 s away from the time currently in effect; a request inside that band may be
                // ignored (the current code does) or honoured (a processor without the shortcut), so afterwards either
                // time may be in effect.  "The time currently in effect" and "the requested time" can each be read raw or
                // after the documented clamps (above 10 s behaves like 10 s; below a few samples it is the fastest
                // response): a request counts as "outside the band" only if every reading says so.
                let fsd = ex.fs as f64;
                let outside = |te: f32| -> bool {
                    let mut refs = vec![te as f64, (te as f64).min(10.0)];
                    if (te as f64) * fsd < 4.0 {
                        refs.extend_from_slice(&[0.0, 2.0 / fsd, 4.0 / fsd]);
                    }
                    let mut reqs = vec![t as f64, (t as f64).min(10.0)];
                    if (t as f64) * fsd < 4.0 {
                        reqs.extend_from_slice(&[0.0, 2.0 / fsd, 4.0 / fsd]);
                    }
                    for e in refs {
                        for r in reqs.iter() {
                            let d = (r - e).abs();
                            if !(d > 0.05 + 1e-6 * (1.0 + t.abs() as f64 + te.abs() as f64)) {
                                return false;
                            }
                        }
                    }
                    true
                };
                let old = ex.hyps();
                let valid = t.is_finite() && t >= 0.0;
                // the classical reading (requests inside the band are ignored) stays in front: the generator aims at it
                let mut new_h: Vec<f32> = Vec::new();
                let mut push = |v: &mut Vec<f32>, x: f32| {
                    if !v.iter().any(|y| y.to_bits() == x.to_bits()) {
                        v.push(x);
                    }
                };
                let honoured = old.first().map(|te| outside(*te)).unwrap_or(true);
                if old.is_empty() {
                    push(&mut new_h, t);
                } else {
                    for te in old.iter() {
                        if outside(*te) {
                            push(&mut new_h, t);
                        } else {
                            push(&mut new_h, *te);
                            push(&mut new_h, t);
                        }
                    }
                }
                let single = new_h.len() == 1;
                if !valid || new_h.len() > 4 {
                    if ex.twins_ok {
                        ctx.probe(P_DEAD_BAND_AMBIGUOUS);
                        ctx.suspended += 1;
                    }
                    ex.twins_ok = false;
                    ex.t_unknown = true;
                    ex.gain_max = ex.gain_max.max(ex.gain_for(if valid { t } else { 10.0 }));
                } else if !single && ex.twins_ok {
                    // from here on the twins cannot know which time is in effect
                    ctx.probe(P_DEAD_BAND_AMBIGUOUS);
                    ctx.suspended += 1;
                    ex.twins_ok = false;
                }
                let far_from_target = ex.err_prev.abs() > ex.tol() * 4.0 + 1e-4 * ex.max_abs_x;
                if valid {
                    if ex.twins_ok {
                        // every reading obliges the processor to honour the call: both twins apply it, whatever their own band
                        real!(ex.b.set_time(Exec::far(t)));
                        real!(ex.b.set_time(t));
                        let tc = if t > 10.0 { 10.0 } else { t };
                        real!(ex.c.set_time(Exec::far(tc)));
                        real!(ex.c.set_time(tc));
                    }
                    let changed = old != new_h;
                    ex.t_eff = Some(new_h[0]);
                    ex.t_alt = new_h[1..].to_vec();
                    let g = ex.gain_for(t);
                    if g > ex.gain_max {
                        ex.gain_max = g;
                    }
                    if changed {
                        ex.since_change = 0;
                        ex.settle_start_err = ex.err_prev.abs();
                        ex.lm = None;
                        ex.settled = false;
                    }
                }
                if honoured && valid {
                    if far_from_target {
                        ctx.fault(F_SET_TIME_MID_GLIDE);
                        if ex.is_fast() {
                            ctx.fault(F_SET_TIME_FAST_MID_GLIDE);
                        }
                    }
                    let n = ex.n_eff();
                    if n < 2.0 {
                        ctx.fault(F_TIME_ZERO_OR_SUBSAMPLE);
                    } else if n < 4.0 {
                        ctx.probe(P_TIME_BETWEEN_2_AND_4_SAMPLES);
                    } else if n < 100.0 {
                        ctx.probe(P_TIME_BETWEEN_4_AND_100_SAMPLES);
                    }
                    if t > 10.0 {
                        ctx.fault(F_TIME_ABOVE_10S);
                    }
                    if t == 0.0 && t.is_sign_negative() {
                        ctx.probe(P_NEG_ZERO_TIME);
                    }
                } else if valid {
                    ctx.fault(F_SET_TIME_IN_DEAD_BAND);
                }
                let cls = {
                    let n = (t.max(0.0).min(10.0) as f64) * ex.fs as f64;
                    if n < 2.0 {
                        0
                    } else if n < 4.0 {
                        1
                    } else if n < 100.0 {
                        2
                    } else if t <= 10.0 {
                        3
                    } else {
                        4
                    }
                };
                ctx.transition(2 | cls << 3 | (honoured as u32) << 6 | (far_from_target as u32) << 7);
            }
            Ev::Restart => {
                ctx.fault(F_RESTART);
                ex.a = real!(GlideProcessor::new(ex.fs));
                ex.b = real!(GlideProcessor::new(ex.fs));
                ex.c = real!(GlideProcessor::new(ex.fs));
                ex.twins_ok = true;
                ex.t_unknown = false;
                ex.t_eff = None;
                ex.t_alt.clear();
                ex.gain_max = 1.0;
                ex.max_abs_x = 0.0;
                ex.hull_lo = 0.0;
                ex.hull_hi = 0.0;
                ex.x_cur = None;
                ex.hold_n = 0;
                ex.since_change = 0;
                ex.y_last = 0.0;
                ex.err_prev = 0.0;
                ex.lm = None;
                ex.settled = false;
                ctx.transition(3);
            }
        }
    }

    fn finish(_ex: &mut Exec, _ctx: &mut Ctx) {}

    fn run(rng: &mut Rng, prof: &Profile, run: u64, sink: &mut Sink<Self>) {
        if (run == 3 || run == 4) && prof.tier == Tier::Thorough {
            random_run_m(rng, prof, sink, true);
        } else if !prof.chaos && run % 16 == 15 {
            sweep_run(rng, sink);
        } else {
            random_run(rng, prof, sink);
        }
    }

    fn cfg_json(c: &Cfg) -> J {
        J::obj(vec![("sample_rate_hz", f32j(c.fs)), ("sample_rate_hz_readable", J::Num(c.fs as f64))])
    }
    fn cfg_parse(j: &J) -> Result<Cfg, String> {
        Ok(Cfg { fs: jf32(j.get("sample_rate_hz").ok_or("no sample_rate_hz")?)? })
    }
    fn ev_json(e: &Ev) -> J {
        match e {
            Ev::Hold(b, n) => J::Arr(vec![J::s("process"), J::hex32(*b), J::u(*n as u64), J::Num(f32::from_bits(*b) as f64)]),
            Ev::SetTime(b) => J::Arr(vec![J::s("set_time"), J::hex32(*b), J::Num(f32::from_bits(*b) as f64)]),
            Ev::Restart => J::Arr(vec![J::s("restart")]),
        }
    }
    fn ev_parse(j: &J) -> Result<Ev, String> {
        let (n, a) = ev_name(j)?;
        Ok(match n {
            "process" => Ev::Hold(arg(a, 0)?.as_hex32().ok_or("bad bits")?, ju64(arg(a, 1)?)? as u32),
            "set_time" => Ev::SetTime(arg(a, 0)?.as_hex32().ok_or("bad bits")?),
            "restart" => Ev::Restart,
            x => return Err(format!("unknown glide event {}", x)),
        })
    }
    fn shrink_ev(e: &Ev) -> Vec<Ev> {
        match e {
            Ev::Hold(b, n) => {
                let mut v = Vec::new();
                if *n > 1 {
                    v.push(Ev::Hold(*b, 1));
                    v.push(Ev::Hold(*b, n / 2));
                    v.push(Ev::Hold(*b, n - 1));
                }
                for c in shrink_f32(f32::from_bits(*b)) {
                    v.push(Ev::Hold(c.to_bits(), *n));
                }
                v
            }
            Ev::SetTime(b) => shrink_f32(f32::from_bits(*b)).into_iter().map(|c| Ev::SetTime(c.to_bits())).collect(),
            Ev::Restart => Vec::new(),
        }
    }
    fn shrink_cfg(c: &Cfg) -> Vec<Cfg> {
        [1000.0f32, 100.0, 48000.0].iter().filter(|f| **f != c.fs).map(|f| Cfg { fs: *f }).collect()
    }
    fn merge(a: &Ev, b: &Ev) -> Option<Ev> {
        match (a, b) {
            (Ev::Hold(x, n), Ev::Hold(y, m)) if x == y => n.checked_add(*m).map(|k| Ev::Hold(*x, k)),
            _ => None,
        }
    }
}

// ---------------------------------------------------------------------------------------------

fn fs_specials() -> Vec<f32> {
    COMMON_RATES.iter().copied().filter(|f| *f <= 48000.0).collect()
}

fn gen_time(rng: &mut Rng, fs: f32, n_target: f64, chaos: bool) -> f32 {
    if chaos {
        return match rng.below(6) {
            0 => *rng.pick(&[0.0f32, f32::MAX, f32::MIN_POSITIVE, 1e-45, 1e30, 1e-30, 3.0e38]),
            1 => f32::from_bits(rng.next() as u32 & 0x7f7f_ffff),
            2 => (rng.uniform(0.0, 6.0) / fs as f64) as f32,
            _ => rng.log_uniform(1e-5, 100.0) as f32,
        };
    }
    match rng.below(14) {
        0 => 0.0,
        1 => *rng.pick(&[-0.0f32, 1e-45, f32::MIN_POSITIVE, 1e-9]),
        2 => (rng.uniform(0.0, 2.0) / fs as f64) as f32,
        3 => (rng.uniform(2.0, 4.0) / fs as f64) as f32,
        4 => (rng.uniform(4.0, 100.0) / fs as f64) as f32,
        5 => *rng.pick(&[10.0f32, 10.001, 10.06, 11.0, 12.0, 20.0, 100.0, 1e6]),
        6 => *rng.pick(&[0.05f32, 0.1, 0.5, 1.0, 0.049, 0.051]),
        _ => ((n_target * rng.log_uniform(0.3, 3.0)) / fs as f64).min(10.0) as f32,
    }
}

fn gen_input(rng: &mut Rng) -> f32 {
    match rng.below(10) {
        0 => *rng.pick(&[0.0f32, 10.0, 5.0, 1.0, -0.0]),
        1 => rng.uniform(-10.0, 10.0) as f32,
        2 => (rng.range(0, 120) as f64 / 12.0) as f32,
        _ => rng.uniform(0.0, 10.0) as f32,
    }
}

fn random_run(rng: &mut Rng, prof: &Profile, sink: &mut Sink<GlideEngine>) {
    random_run_m(rng, prof, sink, false)
}

fn random_run_m(rng: &mut Rng, prof: &Profile, sink: &mut Sink<GlideEngine>, marathon: bool) {
    let chaos = prof.chaos;
    // the documented range goes up to 192 kHz; most runs stay at or below 48 kHz (shorter glides in samples)
    let fs = if rng.chance(if chaos { 0.5 } else { 0.2 }) {
        if rng.chance(0.5) {
            *rng.pick(&[64000.0f32, 88200.0, 96000.0, 176400.0, 192000.0, 191999.0])
        } else {
            rng.log_uniform(48000.0, 192000.0) as f32
        }
    } else if rng.chance(0.5) {
        *rng.pick(&fs_specials())
    } else {
        rng.log_uniform(100.0, 48000.0) as f32
    };
    let long = rng.chance(if prof.tier == Tier::Thorough { 0.08 } else { 0.03 });
    let n_target = if long { rng.log_uniform(2e4, 4.8e5) } else { rng.log_uniform(4.0, 4000.0) };
    let budget: u64 = if long { (n_target * 6.0) as u64 } else { ((n_target * 25.0) as u64).clamp(400, 80_000) };
    let max_events = 20 + rng.usize(140);
    let mut t = sink.begin(Cfg { fs });
    if rng.chance(0.9) {
        t.push(Ev::SetTime(gen_time(rng, fs, n_target, chaos).to_bits()));
    }
    if marathon {
        // a day of uptime: more samples than a 32-bit sample counter holds, then the instrument is played; the glide
        // time is re-set so that the landmarks apply, and the first step lands a few glide times before the wrap
        let n_eff = rng.uniform(200.0, 2000.0);
        t.push(Ev::SetTime(((n_eff / fs as f64) as f32).to_bits()));
        let x = gen_input(rng);
        let r = (rng.uniform(0.0, 6.0) * n_eff) as u32;
        let done = t.ctx.steps.min(1_000_000) as u32;
        t.push(Ev::Hold(x.to_bits(), u32::MAX - r - done));
        for _ in 0..rng.range(3, 8) {
            let k = (rng.uniform(0.5, 4.0) * n_eff) as u32;
            t.push(Ev::Hold(gen_input(rng).to_bits(), k));
        }
    }
    // long-running blocks (where narrow counters wrap), in a small share of the runs
    if rng.chance(0.02) {
        let n = rng.near_pow2(false);
        if rng.chance(0.5) {
            // the panel task writing alternating settings many times, a sample or none in between;
            // half of the time two long times just outside each other's 0.05 s dead band (a noisy pot)
            let near = rng.chance(0.5);
            let n = if near { n * rng.range(1, 8) } else { n };
            let a = if near { rng.uniform(5.2, 10.0) as f32 } else { gen_time(rng, fs, n_target, chaos) };
            let b = if near { (a as f64 + rng.uniform(0.051, 0.0099 * a as f64) * if rng.chance(0.5) { -1.0 } else { 1.0 }) as f32 } else { gen_time(rng, fs, n_target, chaos) };
            let with_samples = rng.chance(0.5);
            for i in 0..n {
                t.push(Ev::SetTime(if i % 2 == 0 { a } else { b }.to_bits()));
                if with_samples {
                    t.push(Ev::Hold(gen_input(rng).to_bits(), 1));
                }
            }
            if near && fs <= 2000.0 {
                let te = t.exec().t_eff().unwrap_or(1.0).min(10.0) as f64 * fs as f64;
                t.push(Ev::Hold(gen_input(rng).to_bits(), (3.0 * te + 17.0) as u32));
                t.push(Ev::Hold(gen_input(rng).to_bits(), te as u32 + 4));
            }
        } else {
            // a long hold
            t.push(Ev::Hold(gen_input(rng).to_bits(), 65_536 + rng.below(64) as u32));
            t.push(Ev::Hold(gen_input(rng).to_bits(), rng.range(1, 400) as u32));
        }
    }
    let budget = budget + t.ctx.steps;
    let max_events = max_events + t.evs.len();
    while !t.dead && t.ctx.steps < budget && t.evs.len() < max_events {
        let n_eff = t.exec().t_eff().map(|x| x.min(10.0).max(0.0) as f64 * fs as f64).unwrap_or(0.0);
        let left = budget.saturating_sub(t.ctx.steps).max(1);
        match rng.weighted(&[22, 16, 18, 10, 8, 12, 1]) {
            0 => {
                // a step, held for a seeded stretch
                let x = gen_input(rng);
                let n = match rng.below(7) {
                    0 => 1.0,
                    1 => 2.0,
                    2 => rng.range(1, 12) as f64,
                    3 => n_eff / 10.0 + rng.range(0, 3) as f64,
                    4 => n_eff + rng.range(0, 3) as f64,
                    5 => 3.0 * n_eff + 16.0 + rng.range(0, 8) as f64,
                    _ => n_eff * rng.uniform(0.0, 2.0) + 1.0,
                };
                t.push(Ev::Hold(x.to_bits(), (n.max(1.0) as u64).min(left) as u32));
            }
            1 => {
                // settle, then step, then hold for t: the landmark scenario
                let need = (3.0 * n_eff + 17.0) as u64 + (n_eff as u64) + 4;
                if need < left {
                    let x0 = gen_input(rng);
                    t.push(Ev::Hold(x0.to_bits(), (3.0 * n_eff + 17.0) as u32 + rng.range(0, 4) as u32));
                    let x1 = gen_input(rng);
                    t.push(Ev::Hold(x1.to_bits(), n_eff as u32 + 4));
                } else {
                    t.push(Ev::Hold(gen_input(rng).to_bits(), rng.range(1, 30) as u32));
                }
            }
            2 => {
                // panel change, any time
                t.push(Ev::SetTime(gen_time(rng, fs, n_target, chaos).to_bits()));
            }
            3 => {
                // switch to (nearly) zero glide while far from the target
                let x = gen_input(rng);
                t.push(Ev::Hold(x.to_bits(), rng.range(1, 6) as u32));
                let tt = match rng.below(4) {
                    0 => 0.0f32,
                    1 => (rng.uniform(0.0, 2.0) / fs as f64) as f32,
                    2 => (rng.uniform(2.0, 4.0) / fs as f64) as f32,
                    _ => (rng.uniform(0.0, 8.0) / fs as f64) as f32,
                };
                t.push(Ev::SetTime(tt.to_bits()));
                t.push(Ev::Hold(x.to_bits(), rng.range(2, 40) as u32));
            }
            4 => {
                // nearby set_time values around the 0.05 s dead band
                if let Some(te) = t.exec().t_eff() {
                    for _ in 0..rng.range(1, 5) {
                        let d = *rng.pick(&[0.0f64, 0.01, -0.01, 0.04, -0.04, 0.049, -0.049, 0.052, -0.052, 0.06, -0.06, 0.1, -0.1]);
                        let tt = ((te as f64 + d).max(0.0)) as f32;
                        t.push(Ev::SetTime(tt.to_bits()));
                        t.push(Ev::Hold(gen_input(rng).to_bits(), rng.range(1, 20) as u32));
                    }
                } else {
                    t.push(Ev::SetTime(gen_time(rng, fs, n_target, chaos).to_bits()));
                }
            }
            5 => {
                // ramps, noise, alternating extremes: one sample per value
                let kind = rng.below(3);
                let mut x = gen_input(rng) as f64;
                let d = rng.log_uniform(1e-4, 0.5);
                for i in 0..rng.range(3, 40) {
                    let v = match kind {
                        0 => {
                            x += d;
                            x
                        }
                        1 => x + rng.uniform(-d, d),
                        _ => {
                            if i % 2 == 0 {
                                0.0
                            } else {
                                10.0
                            }
                        }
                    };
                    t.push(Ev::Hold((v as f32).to_bits(), 1));
                }
            }
            _ => t.push(Ev::Restart),
        }
    }
    sink.end(t);
}

/// single-fault sweep: a seeded short glide; one set_time call (a menu of awkward times) or one input jump
/// injected at every sample index of the glide
fn sweep_run(rng: &mut Rng, sink: &mut Sink<GlideEngine>) {
    let fs = if rng.chance(0.5) { *rng.pick(&fs_specials()) } else { rng.log_uniform(100.0, 48000.0) as f32 };
    let n = rng.range(6, 40) as f64; // glide length in samples
    let t0 = (n / fs as f64) as f32;
    let x0 = gen_input(rng);
    let x1 = gen_input(rng);
    let x2 = gen_input(rng);
    let len = (n * 1.5) as u32 + 4;
    let menu: Vec<f32> = vec![
        0.0,
        -0.0,
        (1.0 / fs as f64) as f32,
        (2.5 / fs as f64) as f32,
        (3.7 / fs as f64) as f32,
        (4.0 / fs as f64) as f32,
        t0 * 0.5,
        t0 * 2.0,
        t0 + 0.049,
        t0 + 0.051,
        1.0,
        10.0,
        11.0,
    ];
    for pos in 0..=len {
        for k in 0..=menu.len() {
            let mut t = sink.begin(Cfg { fs });
            t.ctx.probe(P_SWEEP_TRACES);
            t.push(Ev::SetTime(t0.to_bits()));
            t.push(Ev::Hold(x0.to_bits(), (3.0 * n) as u32 + 17));
            if pos > 0 {
                t.push(Ev::Hold(x1.to_bits(), pos));
            }
            if k < menu.len() {
                t.push(Ev::SetTime(menu[k].to_bits()));
                t.push(Ev::Hold(x1.to_bits(), len - pos + (3.0 * n) as u32 + 20));
            } else {
                t.push(Ev::Hold(x2.to_bits(), len - pos + (3.0 * n) as u32 + 20));
            }
            sink.end(t);
        }
    }
}

