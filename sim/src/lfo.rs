//! Engine `lfo`: a sample clock, a modulator (set_frequency), a sync source (reset / set_phase) and a reader
//! around the real `Lfo`.  Decides C10 (waveforms), C11 (phase advance) and C12 (continuity) + part of C17.

use crate::core::*;
use crate::json::J;
use crate::real;
use crate::rng::Rng;
use synth_utils::lfo::{Lfo, Waveshape};

pub struct LfoEngine;

#[derive(Clone, Debug)]
pub struct Cfg {
    pub fs: f32,
}

#[derive(Clone, Debug)]
pub enum Ev {
    Tick(u32),
    /// n ticks during which nobody reads a waveform; one look afterwards (also the long-run drift check)
    TickBlind(u32),
    SetFreq(u32),
    Reset,
    SetPhase(u32),
    /// read shapes in the encoded order (3 bits per read, up to 8 reads); checks that reads do not disturb each other
    Read(u32),
    Restart,
}

const F_FREQ_CHANGE_MID_CYCLE: usize = 0;
const F_RESET_MID_CYCLE: usize = 1;
const F_SET_PHASE_MID_CYCLE: usize = 2;
const F_PHASE_ARG_NEGATIVE_OR_HUGE: usize = 3;
const F_FREQ_ZERO_OR_TINY: usize = 4;
const F_FREQ_EQUALS_FS: usize = 5;
const F_RESTART: usize = 6;
const P_SINE_LAST_TWO_CELLS: usize = 7;
const P_WRAP_CROSSED_SLOW: usize = 8;
const P_CELL_BOUNDARY_CROSSED_SLOW: usize = 9;
const P_TICKS_AT_ZERO_INCREMENT: usize = 10;
const P_CONGRUENT_NEGATIVE_PAIRS: usize = 11;
const P_WRAP_CROSSED: usize = 12;
const P_TRIANGLE_CORNER_VISITED: usize = 13;
const P_SQUARE_EDGE_CROSSED: usize = 14;
const P_REORDERED_READS: usize = 15;
const P_SLOW_TICKS: usize = 16;
const P_SWEEP_TRACES: usize = 17;
const P_BLIND_TICKS: usize = 18;

const TWO24: f64 = 16777216.0;
const ULP1: f64 = 1.1920928955078125e-7;

const SHAPES: [Waveshape; 5] = [Waveshape::Sine, Waveshape::Triangle, Waveshape::UpSaw, Waveshape::DownSaw, Waveshape::Square];

#[derive(Clone, Copy, Debug)]
struct Obs {
    sine: f32,
    tri: f32,
    up: f32,
    down: f32,
    sq: f32,
}

pub struct Exec {
    fs: f32,
    l: Lfo,
    /// requested frequency; None until the first set_frequency (the power-on frequency is not part of any property)
    f: Option<f32>,
    phi: u32,
    phi_valid: bool,
    last: Obs,
    delta_const: Option<u32>,
    neg_phases: Vec<(u64, u32)>,
    ticks_since_sync: u64,
}

impl Exec {
    pub fn phi(&self) -> u32 {
        self.phi
    }
    pub fn freq(&self) -> f32 {
        self.f.unwrap_or(0.0)
    }

    fn read_all(&self) -> Obs {
        Obs {
            sine: real!(self.l.get(Waveshape::Sine)),
            tri: real!(self.l.get(Waveshape::Triangle)),
            up: real!(self.l.get(Waveshape::UpSaw)),
            down: real!(self.l.get(Waveshape::DownSaw)),
            sq: real!(self.l.get(Waveshape::Square)),
        }
    }

    /// read the five shapes, recover the phase counter from the up-saw, evaluate the C10 invariant
    #[inline(always)]
    fn observe(&mut self, ctx: &mut Ctx) -> Obs {
        // the up-saw first: it tells where the phase is; the other shapes are only read at a valid phase
        // (except in the chaos profile, whose business is exactly whether those reads panic)
        let up = real!(self.l.get(Waveshape::UpSaw));
        let raw = (up as f64 + 1.0) * 8388608.0;
        let on_grid = raw >= 0.0 && raw < TWO24 && raw.fract() == 0.0;
        ctx.check(10, "up_saw_is_two_phase_minus_one", on_grid, || {
            format!("up-saw {:e} is not 2*phase-1 for any 24-bit phase in [0,1) ((v+1)*2^23 = {})", up, raw)
        });
        ctx.check(11, "phase_stays_in_unit_interval", on_grid, || {
            format!("the phase read back from the up-saw ({:e} -> {} counts) is not a 24-bit phase in [0,1)", up, raw)
        });
        if !on_grid {
            self.phi_valid = false;
            if ctx.chaos {
                return self.read_all();
            }
            return Obs { sine: 0.0, tri: 0.0, up, down: -up, sq: 0.0 };
        }
        let o = self.read_all();
        let phi = raw as u32;
        self.phi = phi;
        self.phi_valid = true;
        let ph = phi as f64 / TWO24;
        let all_in = [o.sine, o.tri, o.up, o.down, o.sq].iter().all(|v| (-1.0..=1.0).contains(v));
        ctx.check(10, "range", all_in, || format!("phase {}: a waveform left [-1,1]: {:?}", phi, o));
        ctx.check(10, "down_saw_is_negated_up_saw", o.down == -o.up, || format!("phase {}: up {:e} down {:e}", phi, o.up, o.down));
        let sq = if phi < (1 << 23) { 1.0 } else { -1.0 };
        ctx.check(10, "square_halves", o.sq == sq, || format!("phase {} ({:.6}): square {:e}", phi, ph, o.sq));
        let r = phi as f64 / 4194304.0;
        let tri = if r < 1.0 {
            r
        } else if r < 3.0 {
            2.0 - r
        } else {
            r - 4.0
        };
        ctx.check(10, "triangle_exact", o.tri as f64 == tri, || {
            format!("phase {} ({:.7}): triangle {:e}, exact piecewise-linear value {:e}", phi, ph, o.tri, tri)
        });
        let s = (2.0 * std::f64::consts::PI * ph).sin();
        ctx.check(10, "sine_within_two_table_steps", (o.sine as f64 - s).abs() <= 0.0125, || {
            format!("phase {} ({:.7}): sine {:e}, sin(2 pi phase) {:e}", phi, ph, o.sine, s)
        });
        if phi >> 14 >= 1022 {
            ctx.probe(P_SINE_LAST_TWO_CELLS);
        }
        if phi == 1 << 22 || phi == 3 << 22 {
            ctx.probe(P_TRIANGLE_CORNER_VISITED);
        }
        o
    }

    #[inline(always)]
    fn one_tick(&mut self, ctx: &mut Ctx) {
        let phi0 = self.phi;
        let valid0 = self.phi_valid;
        let prev = self.last;
        real!(self.l.tick());
        ctx.steps += 1;
        let o = self.observe(ctx);
        if valid0 && self.phi_valid {
            let d = self.phi.wrapping_sub(phi0) & 0x00FF_FFFF;
            // ---------------- C11: advance window (modulo one cycle)
            let fq = self.f.unwrap_or(f32::NAN);
            let q = TWO24 * fq as f64 / self.fs as f64;
            let lo = q * (1.0 - ULP1) - 1.0;
            let hi = q * (1.0 + ULP1);
            let k0 = (lo / TWO24).floor();
            let mut ok = false;
            for k in [k0, k0 + 1.0] {
                let dd = d as f64 + k * TWO24;
                if dd >= lo && dd <= hi {
                    ok = true;
                }
            }
            let (f, fs) = (fq, self.fs);
            ctx.check(11, "tick_advance_window", ok || self.f.is_none(), || {
                format!(
                    "f={:e} Hz at fs={:e}: tick advanced the 24-bit phase by {} (mod 2^24), allowed [{:.3}, {:.3}] (mod 2^24)",
                    f, fs, d, lo, hi
                )
            });
            if let Some(dc) = self.delta_const {
                ctx.check(11, "advance_is_constant", dc == d, || {
                    format!("phase step changed from {} to {} without a set_frequency call", dc, d)
                });
            }
            self.delta_const = Some(d);
            // ---------------- C12: continuity between consecutive ticks
            let sigma = d as f64 / TWO24;
            let ds = (o.sine as f64 - prev.sine as f64).abs();
            let lim_s = 2.0 * std::f64::consts::PI * 1.002 * sigma + 2.0 * ULP1;
            ctx.check(12, "sine_step_bound", ds <= lim_s, || {
                format!(
                    "phase {} -> {} (step {}): sine {:e} -> {:e}, |d|={:e} exceeds 2pi*1.002*step+2ulp = {:e}",
                    phi0, self.phi, d, prev.sine, o.sine, ds, lim_s
                )
            });
            let dt = (o.tri as f64 - prev.tri as f64).abs();
            ctx.check(12, "triangle_step_bound", dt <= 4.0 * sigma + 1e-12, || {
                format!(
                    "phase {} -> {} (step {}): triangle {:e} -> {:e}, |d|={:e} exceeds 4*step = {:e}",
                    phi0,
                    self.phi,
                    d,
                    prev.tri,
                    o.tri,
                    dt,
                    4.0 * sigma
                )
            });
            // probes
            if d == 0 {
                ctx.probe(P_TICKS_AT_ZERO_INCREMENT);
            } else {
                if self.phi < phi0 {
                    ctx.probe(P_WRAP_CROSSED);
                    if d <= 64 {
                        ctx.probe(P_WRAP_CROSSED_SLOW);
                    }
                }
                if d <= 64 {
                    ctx.probe(P_SLOW_TICKS);
                    if self.phi >> 14 != phi0 >> 14 {
                        ctx.probe(P_CELL_BOUNDARY_CROSSED_SLOW);
                    }
                }
                if (phi0 < 1 << 23) != (self.phi < 1 << 23) {
                    ctx.probe(P_SQUARE_EDGE_CROSSED);
                }
            }
            if self.phi >> 8 != phi0 >> 8 {
                ctx.cover(self.phi >> 8);
            }
        }
        self.last = o;
        self.ticks_since_sync += 1;
    }
}

impl Engine for LfoEngine {
    const NAME: &'static str = "lfo";
    const PROBES: &'static [&'static str] = &[
        "fault_frequency_change_mid_cycle",
        "fault_reset_mid_cycle",
        "fault_set_phase_mid_cycle",
        "fault_phase_argument_negative_or_huge",
        "fault_frequency_zero_or_below_one_counter_step",
        "fault_frequency_equals_sample_rate",
        "fault_restart",
        "sine_read_in_last_two_table_cells",
        "wrap_crossed_with_increment_le_64",
        "table_cell_boundary_crossed_with_increment_le_64",
        "ticks_at_zero_increment",
        "congruent_negative_phase_pairs",
        "wrap_crossed",
        "triangle_corner_visited",
        "square_edge_crossed",
        "reordered_or_repeated_reads",
        "ticks_with_increment_le_64",
        "sweep_traces",
        "unobserved_tick_stretches",
    ];
    const NFAULT: usize = 7;
    const COMPONENTS: &'static [(&'static str, &'static str)] = &[
        ("synth_utils::lfo::Lfo (+ phase_accumulator, sine table, utils)", "real code"),
        ("sample clock, modulator, sync source, reader, restarter", "simulator stub (seeded scheduler)"),
        ("integer phase model and closed-form waveforms at the phase read back from the up-saw", "oracle written from the property statements"),
    ];
    type Cfg = Cfg;
    type Ev = Ev;
    type Exec = Exec;

    fn new_exec(cfg: &Cfg, ctx: &mut Ctx) -> Exec {
        ctx.cover_cap = 70_000;
        let l = real!(Lfo::new(cfg.fs));
        let mut ex = Exec {
            fs: cfg.fs,
            l,
            f: None,
            phi: 0,
            phi_valid: true,
            last: Obs { sine: 0.0, tri: 0.0, up: -1.0, down: 1.0, sq: 1.0 },
            delta_const: None,
            neg_phases: Vec::new(),
            ticks_since_sync: 0,
        };
        let o = ex.observe(ctx);
        ex.last = o;
        ex
    }

    fn step(ex: &mut Exec, ev: &Ev, ctx: &mut Ctx) {
        match ev {
            Ev::Tick(n) => {
                ctx.sim_ns += (*n as f64 * 1e9 / ex.fs as f64) as u64;
                for i in 0..*n {
                    ex.one_tick(ctx);
                    if i & 0xffff == 0xffff {
                        heartbeat();
                    }
                }
                ctx.transition(1 | (ex.phi >> 20) << 3 | ((*n).min(255)) << 8);
            }
            Ev::TickBlind(n) => {
                ctx.sim_ns += (*n as f64 * 1e9 / ex.fs as f64) as u64;
                let phi0 = ex.phi;
                let v0 = ex.phi_valid;
                for i in 0..*n {
                    real!(ex.l.tick());
                    if i & 0xffffff == 0xffffff {
                        heartbeat();
                    }
                }
                ctx.steps += *n as u64;
                ctx.probe(P_BLIND_TICKS);
                let o = ex.observe(ctx);
                ex.last = o;
                if v0 && ex.phi_valid {
                    let got = ex.phi.wrapping_sub(phi0) & 0x00FF_FFFF;
                    if let Some(d) = ex.delta_const {
                        // the increment is constant between set_frequency calls: n ticks advance by exactly n*d (mod 2^24)
                        let want = ((*n as u64).wrapping_mul(d as u64) & 0x00FF_FFFF) as u32;
                        ctx.check(11, "advance_is_constant", got == want, || {
                            format!(
                                "{} unobserved ticks at a constant step of {} advanced the phase by {} (mod 2^24), expected {}",
                                n, d, got, want
                            )
                        });
                    } else if let Some(f) = ex.f {
                        // first ticks after a set_frequency: the statement's window, if n ticks keep it narrower than a cycle
                        let q = TWO24 * f as f64 / ex.fs as f64;
                        let lo = (q * (1.0 - ULP1) - 1.0) * *n as f64;
                        let hi = q * (1.0 + ULP1) * *n as f64;
                        if hi - lo < TWO24 / 2.0 {
                            let k0 = (lo / TWO24).floor();
                            let ok = [k0, k0 + 1.0].iter().any(|k| {
                                let dd = got as f64 + k * TWO24;
                                dd >= lo && dd <= hi
                            });
                            ctx.check(11, "tick_advance_window", ok, || {
                                format!(
                                    "f={:e} Hz at fs={:e}: {} unobserved ticks advanced the phase by {} (mod 2^24), allowed [{:.1}, {:.1}] (mod 2^24)",
                                    f, ex.fs, n, got, lo, hi
                                )
                            });
                        }
                    }
                }
                ex.ticks_since_sync += *n as u64;
                ctx.transition(6 | (ex.phi >> 20) << 3 | ((*n).min(255)) << 8);
            }
            Ev::SetFreq(bits) => {
                let f = f32::from_bits(*bits);
                let phi0 = ex.phi;
                let v0 = ex.phi_valid;
                real!(ex.l.set_frequency(f));
                ex.f = Some(f);
                ex.delta_const = None;
                let o = ex.observe(ctx);
                ex.last = o;
                if v0 && ex.phi_valid {
                    ctx.check(11, "set_frequency_keeps_phase", ex.phi == phi0, || {
                        format!("set_frequency({:e}) moved the phase {} -> {}", f, phi0, ex.phi)
                    });
                }
                if ex.ticks_since_sync > 0 && phi0 != 0 {
                    ctx.fault(F_FREQ_CHANGE_MID_CYCLE);
                }
                let q = TWO24 * f as f64 / ex.fs as f64;
                if q < 1.0 {
                    ctx.fault(F_FREQ_ZERO_OR_TINY);
                }
                if f == ex.fs {
                    ctx.fault(F_FREQ_EQUALS_FS);
                }
                ctx.transition(2 | (phi0 >> 20) << 3 | ((q.max(1.0).log2() as u32).min(31)) << 8);
            }
            Ev::Reset => {
                if ex.phi != 0 {
                    ctx.fault(F_RESET_MID_CYCLE);
                }
                let phi0 = ex.phi;
                real!(ex.l.reset());
                let o = ex.observe(ctx);
                ex.last = o;
                ctx.check(11, "reset_to_phase_zero", ex.phi_valid && ex.phi == 0, || format!("after reset the phase is {}", ex.phi));
                ex.ticks_since_sync = 0;
                ctx.transition(3 | (phi0 >> 20) << 3);
            }
            Ev::SetPhase(bits) => {
                let p = f32::from_bits(*bits);
                if ex.phi != 0 {
                    ctx.fault(F_SET_PHASE_MID_CYCLE);
                }
                if p < 0.0 || p >= 1.0 {
                    ctx.fault(F_PHASE_ARG_NEGATIVE_OR_HUGE);
                }
                let phi0 = ex.phi;
                real!(ex.l.set_phase(p));
                let o = ex.observe(ctx);
                ex.last = o;
                if ex.phi_valid && p.is_finite() {
                    let got = ex.phi as f64 / TWO24;
                    if p >= 0.0 {
                        let want = (p as f64).fract();
                        let d = (got - want).abs();
                        let d = d.min(1.0 - d);
                        ctx.check(11, "set_phase_positions", d <= 1.0 / 4194304.0, || {
                            format!("set_phase({:e}): phase is {:.9}, fractional part of p is {:.9}", p, got, want)
                        });
                    } else {
                        // depends only on p modulo 1: exact-congruent negative arguments must land on the same phase
                        let key = (p as f64).fract().to_bits();
                        for (k, ph) in ex.neg_phases.iter() {
                            if *k == key {
                                ctx.probe(P_CONGRUENT_NEGATIVE_PAIRS);
                                let ph = *ph;
                                let cur = ex.phi;
                                ctx.check(11, "negative_phase_depends_only_on_p_mod_1", ph == cur, || {
                                    format!("set_phase({:e}) gives phase {}, an argument congruent modulo 1 gave {}", p, cur, ph)
                                });
                            }
                        }
                        if ex.neg_phases.len() < 64 {
                            ex.neg_phases.push((key, ex.phi));
                        }
                    }
                }
                ex.ticks_since_sync = 0;
                ctx.transition(4 | (phi0 >> 20) << 3 | (ex.phi >> 20) << 8 | ((p < 0.0) as u32) << 12);
            }
            Ev::Read(code) => {
                // reads in seeded order and multiplicity return identical bits and leave the phase alone
                let base = ex.read_all();
                let mut c = *code;
                let mut n = 0;
                while n < 8 {
                    let s = (c & 7) as usize % 5;
                    c >>= 3;
                    n += 1;
                    let v = real!(ex.l.get(SHAPES[s]));
                    let want = [base.sine, base.tri, base.up, base.down, base.sq][s];
                    ctx.check(10, "reads_do_not_disturb", v.to_bits() == want.to_bits(), || {
                        format!("read #{} of {:?} returned {:e}, first read returned {:e}", n, SHAPES[s], v, want)
                    });
                }
                ctx.probe(P_REORDERED_READS);
                let phi0 = ex.phi;
                let o = ex.observe(ctx);
                ex.last = o;
                ctx.check(10, "reads_do_not_move_phase", ex.phi == phi0, || format!("reading moved the phase {} -> {}", phi0, ex.phi));
            }
            Ev::Restart => {
                ctx.fault(F_RESTART);
                ex.l = real!(Lfo::new(ex.fs));
                ex.f = None;
                ex.delta_const = None;
                ex.neg_phases.clear();
                let o = ex.observe(ctx);
                ex.last = o;
                ex.ticks_since_sync = 0;
                ctx.transition(5);
            }
        }
    }

    fn finish(_ex: &mut Exec, _ctx: &mut Ctx) {}

    fn run(rng: &mut Rng, prof: &Profile, run: u64, sink: &mut Sink<Self>) {
        if !prof.chaos && run % 16 == 15 {
            sweep_run(rng, sink);
        } else {
            random_run(rng, prof, run, sink);
        }
    }

    fn cfg_json(c: &Cfg) -> J {
        J::obj(vec![("sample_rate_hz", f32j(c.fs)), ("sample_rate_hz_readable", J::Num(c.fs as f64))])
    }
    fn cfg_parse(j: &J) -> Result<Cfg, String> {
        Ok(Cfg { fs: jf32(j.get("sample_rate_hz").ok_or("no sample_rate_hz")?)? })
    }
    fn ev_json(e: &Ev) -> J {
        match e {
            Ev::Tick(n) => J::Arr(vec![J::s("tick"), J::u(*n as u64)]),
            Ev::TickBlind(n) => J::Arr(vec![J::s("tick_unobserved"), J::u(*n as u64)]),
            Ev::SetFreq(b) => J::Arr(vec![J::s("set_frequency"), J::hex32(*b), J::Num(f32::from_bits(*b) as f64)]),
            Ev::Reset => J::Arr(vec![J::s("reset")]),
            Ev::SetPhase(b) => J::Arr(vec![J::s("set_phase"), J::hex32(*b), J::Num(f32::from_bits(*b) as f64)]),
            Ev::Read(c) => J::Arr(vec![J::s("read"), J::u(*c as u64)]),
            Ev::Restart => J::Arr(vec![J::s("restart")]),
        }
    }
    fn ev_parse(j: &J) -> Result<Ev, String> {
        let (n, a) = ev_name(j)?;
        Ok(match n {
            "tick" => Ev::Tick(ju64(arg(a, 0)?)? as u32),
            "tick_unobserved" => Ev::TickBlind(ju64(arg(a, 0)?)? as u32),
            "set_frequency" => Ev::SetFreq(arg(a, 0)?.as_hex32().ok_or("bad bits")?),
            "reset" => Ev::Reset,
            "set_phase" => Ev::SetPhase(arg(a, 0)?.as_hex32().ok_or("bad bits")?),
            "read" => Ev::Read(ju64(arg(a, 0)?)? as u32),
            "restart" => Ev::Restart,
            x => return Err(format!("unknown lfo event {}", x)),
        })
    }
    fn shrink_ev(e: &Ev) -> Vec<Ev> {
        match e {
            Ev::Tick(n) if *n > 1 => vec![Ev::Tick(1), Ev::Tick(n / 2), Ev::Tick(n - 1)],
            Ev::TickBlind(n) if *n > 1 => vec![Ev::TickBlind(1), Ev::TickBlind(n / 2), Ev::TickBlind(n - 1)],
            Ev::SetFreq(b) => shrink_f32(f32::from_bits(*b)).into_iter().map(|c| Ev::SetFreq(c.to_bits())).collect(),
            Ev::SetPhase(b) => {
                let mut v: Vec<Ev> = [0.25f32, 0.75, 0.9990234375].iter().map(|c| Ev::SetPhase(c.to_bits())).collect();
                v.extend(shrink_f32(f32::from_bits(*b)).into_iter().map(|c| Ev::SetPhase(c.to_bits())));
                v.retain(|x| !matches!(x, Ev::SetPhase(c) if c == b));
                v
            }
            _ => Vec::new(),
        }
    }
    fn shrink_cfg(c: &Cfg) -> Vec<Cfg> {
        [1000.0f32, 100.0, 48000.0].iter().filter(|f| **f != c.fs).map(|f| Cfg { fs: *f }).collect()
    }
    fn merge(a: &Ev, b: &Ev) -> Option<Ev> {
        match (a, b) {
            (Ev::Tick(x), Ev::Tick(y)) => x.checked_add(*y).map(Ev::Tick),
            _ => None,
        }
    }
}

// ---------------------------------------------------------------------------------------------

fn fs_specials() -> Vec<f32> {
    COMMON_RATES.iter().copied().filter(|f| *f <= 192000.0).collect()
}

thread_local! {
    /// generator-side switch: the C10 workload also asks for frequencies above the sample rate (C10 is about every
    /// phase the oscillator can reach; C11 and C17 are quantified over [0, sample rate] only)
    static ABOVE_FS: std::cell::Cell<bool> = const { std::cell::Cell::new(false) };
}

fn gen_freq(rng: &mut Rng, fs: f32, chaos: bool) -> f32 {
    if ABOVE_FS.with(|a| a.get()) && rng.chance(0.04) {
        return (fs as f64 * rng.uniform(1.0, 4.0)) as f32;
    }
    let step = fs as f64 / TWO24; // frequency of one counter step per tick
    let cases = if chaos && rng.chance(0.7) { 6 } else { 12 };
    match rng.below(cases) {
        0 => 0.0,
        1 => (step * *rng.pick(&[0.25, 0.5, 0.999, 1.0, 1.5, 2.5, 3.0, 7.9, 64.0])) as f32,
        2 => fs,
        3 => (fs as f64 * *rng.pick(&[0.5, 0.25, 0.75, 0.999, 0.9999999, 1.0 / 1024.0, 1.0 / 3.0])) as f32,
        4 => *rng.pick(&[f32::MIN_POSITIVE, 1e-40, 1e-20, 1e-9]),
        5 => (step * rng.uniform(1.0, 70.0)) as f32,
        6 | 7 => rng.log_uniform(0.01, 30.0) as f32,
        _ => rng.log_uniform(step.max(1e-6), fs as f64) as f32,
    }
}

fn gen_phase(rng: &mut Rng, chaos: bool) -> f32 {
    if rng.chance(0.12) {
        // a large argument that still carries a fraction: magnitude in [2^k, 2^(k+1)), fraction on the f32 grid
        let k = rng.range(1, 23) as u32;
        let int = (1u64 << k) + rng.below(1u64 << k);
        let fbits = 23 - k;
        let frac = if fbits == 0 { 0.0 } else { rng.below(1u64 << fbits) as f64 / (1u64 << fbits) as f64 };
        let frac = if rng.chance(0.4) && fbits > 0 { 0.5 } else { frac };
        let v = (int as f64 + frac) as f32;
        return if rng.chance(0.5) { -v } else { v };
    }
    match rng.below(if chaos { 5 } else { 10 }) {
        0 => *rng.pick(&[0.0f32, 0.25, 0.5, 0.75, 0.99999994, 0.9990234, 0.99902344, 0.998, 1.0, 2.0]),
        1 => -(rng.f64() as f32),
        2 => *rng.pick(&[f32::MAX, f32::MIN, 1e30, -1e30, 16777216.0, 16777217.0, 8388608.5, -8388608.5, 1e-45, -1e-45, -0.0]),
        3 => rng.uniform(1.0, 1000.0) as f32,
        4 => -(rng.uniform(1.0, 1000.0) as f32),
        _ => rng.f64() as f32,
    }
}

fn random_run(rng: &mut Rng, prof: &Profile, run: u64, sink: &mut Sink<LfoEngine>) {
    let chaos = prof.chaos;
    ABOVE_FS.with(|a| a.set(prof.focus == 10));
    let fs = if chaos {
        if rng.chance(0.5) {
            *rng.pick(&[100.0f32, 192000.0, 192000.0, 44100.0])
        } else if rng.chance(0.5) {
            *rng.pick(&fs_specials())
        } else {
            rng.log_uniform(100.0, 192000.0) as f32
        }
    } else if rng.chance(0.6) {
        *rng.pick(&fs_specials())
    } else {
        rng.log_uniform(100.0, 192000.0) as f32
    };
    let mut t = sink.begin(Cfg { fs });
    let step = fs as f64 / TWO24;
    // full-cycle run: increment 1 (thorough) or a small increment (quick) over the whole counter range
    let full_every = if prof.tier == Tier::Thorough { 400 } else { 0 };
    if !chaos && full_every > 0 && run % full_every == 13 {
        let inc = *rng.pick(&[1.0f64, 1.0, 2.0, 3.0]);
        t.push(Ev::SetFreq(((step * (inc + 0.5)) as f32).to_bits()));
        let start = rng.below(1 << 24) as f64 / TWO24;
        t.push(Ev::SetPhase((start as f32).to_bits()));
        let n = (TWO24 / inc) as u32 + 4096;
        t.push(Ev::Tick(n));
        sink.end(t);
        return;
    }
    let budget: u64 = if prof.tier == Tier::Thorough { 60_000 } else { 30_000 };
    let max_events = 20 + rng.usize(120);
    let style = rng.below(4);
    let blind = rng.chance(0.16);
    t.push(Ev::SetFreq(gen_freq(rng, fs, chaos).to_bits()));
    if prof.tier == Tier::Thorough && run == 3 {
        // a day of uptime: more ticks than a 32-bit counter holds; the phase must still be where the constant step puts it
        t.push(Ev::Tick(2));
        t.push(Ev::TickBlind(u32::MAX - rng.below(1000) as u32));
        t.push(Ev::TickBlind(rng.range(1, 5000) as u32));
        t.push(Ev::Tick(rng.range(1, 50) as u32));
    }
    // long-running blocks (where narrow counters wrap), in a small share of the runs
    if rng.chance(0.02) {
        let n = rng.near_pow2(false);
        match rng.below(3) {
            0 => {
                // many frequency writes between two ticks, the last one decides
                for _ in 0..n {
                    t.push(Ev::SetFreq(gen_freq(rng, fs, chaos).to_bits()));
                }
                t.push(Ev::Tick(rng.range(2, 40) as u32));
            }
            1 => {
                // many sync pulses
                for _ in 0..n {
                    t.push(if rng.chance(0.5) { Ev::Reset } else { Ev::SetPhase(gen_phase(rng, chaos).to_bits()) });
                    t.push(Ev::Tick(1));
                }
            }
            _ => {
                // many wraps: a fast oscillator for n cycles (sometimes more than a 16-bit wrap counter holds)
                let per = rng.range(3, 17) as f64;
                let n = if rng.chance(0.5) { rng.near_pow2(true) } else { n };
                t.push(Ev::SetFreq(((fs as f64 / per) as f32).to_bits()));
                t.push(Ev::Tick(3));
                t.push(Ev::TickBlind((n as f64 * per) as u32 + 5));
                t.push(Ev::SetFreq(gen_freq(rng, fs, chaos).to_bits()));
                t.push(Ev::Tick(rng.range(2, 40) as u32));
            }
        }
    }
    let budget = budget + t.ctx.steps;
    let max_events = max_events + t.evs.len();
    while !t.dead && t.ctx.steps < budget && t.evs.len() < max_events {
        let act = rng.weighted(&[40, 14, 4, 12, 8, 1, if style >= 2 { 20 } else { 4 }]);
        match act {
            0 => {
                let n = match rng.below(6) {
                    0 => 1,
                    1 => 2,
                    2 => rng.range(1, 16),
                    3 => rng.range(16, 400),
                    4 => rng.range(400, 4000),
                    _ => {
                        // up to (and a little past) the next wrap
                        let ex = t.exec();
                        let q = (TWO24 * ex.freq() as f64 / fs as f64).floor().max(1.0);
                        let left = (TWO24 - ex.phi() as f64) / q;
                        (left as u64 + rng.below(8)).clamp(1, 6000)
                    }
                };
                if blind && rng.chance(0.5) {
                    t.push(Ev::Tick(1));
                    t.push(Ev::TickBlind(n as u32));
                } else {
                    t.push(Ev::Tick(n as u32));
                }
            }
            1 if rng.chance(0.2) => {
                // a smoothed frequency pot: many tiny steps in one direction, a tick after each
                let mut f = gen_freq(rng, fs, chaos) as f64;
                let r = 1.0 + rng.log_uniform(1e-7, 1e-3) * if rng.chance(0.5) { -1.0 } else { 1.0 };
                for _ in 0..rng.range(20, 200) {
                    f = (f * r).min(fs as f64);
                    t.push(Ev::SetFreq((f as f32).to_bits()));
                    t.push(Ev::Tick(rng.range(1, 2) as u32));
                }
            }
            1 => t.push(Ev::SetFreq(gen_freq(rng, fs, chaos).to_bits())),
            2 => t.push(Ev::Reset),
            3 => {
                let p = gen_phase(rng, chaos);
                t.push(Ev::SetPhase(p.to_bits()));
                // an exactly congruent partner for negative arguments ("depends only on p modulo 1")
                if p < 0.0 && p > -1.0e7 && rng.chance(0.7) {
                    let k = match rng.below(3) {
                        0 => rng.range(1, 64) as f64,
                        1 => (1u64 << rng.range(1, 22)) as f64,
                        _ => (p as f64).trunc(), // negative k: the partner in (-1, 0]
                    };
                    let p2 = (p as f64 - k) as f32;
                    if p2 as f64 == p as f64 - k {
                        if rng.chance(0.5) {
                            t.push(Ev::Tick(rng.range(1, 5) as u32));
                        }
                        t.push(Ev::SetPhase(p2.to_bits()));
                    }
                }
            }
            4 => t.push(Ev::Read(rng.next() as u32 & 0x00FF_FFFF)),
            5 => {
                t.push(Ev::Restart);
                t.push(Ev::SetFreq(gen_freq(rng, fs, chaos).to_bits()));
            }
            _ => {
                // targeted: a slow increment started shortly before the wrap or before a table-cell boundary
                let inc = *rng.pick(&[1.0f64, 1.0, 2.0, 3.0, 5.0, 16.0, 63.0, 64.0]);
                t.push(Ev::SetFreq(((step * (inc + 0.5)) as f32).to_bits()));
                let back = rng.range(1, 40) as f64 * inc;
                let target: f64 = match rng.below(5) {
                    0 | 1 => TWO24 - back,                                                  // the cycle wrap
                    2 => 1023.0 * 16384.0 - back,                                            // entry of the last table cell
                    3 => ((rng.range(1, 1023) * 16384) as f64 - back).max(0.0),              // any cell boundary
                    _ => (*rng.pick(&[1u32 << 22, 1 << 23, 3 << 22]) as f64 - back).max(0.0), // triangle corners / square edge
                };
                t.push(Ev::SetPhase(((target / TWO24) as f32).to_bits()));
                t.push(Ev::Tick(rng.range(60, 200) as u32));
                if rng.chance(0.3) {
                    t.push(Ev::Read(rng.next() as u32 & 0x00FF_FFFF));
                }
            }
        }
    }
    sink.end(t);
}

/// single-fault sweep: a seeded oscillator with a short cycle; one modulator / sync / reader event injected at
/// every tick of one and a half cycles
fn sweep_run(rng: &mut Rng, sink: &mut Sink<LfoEngine>) {
    // the sweep stays inside [0, sample rate]; set explicitly so that the draw does not depend on what the worker
    // thread generated before
    ABOVE_FS.with(|a| a.set(false));
    let fs = if rng.chance(0.6) { *rng.pick(&fs_specials()) } else { rng.log_uniform(100.0, 192000.0) as f32 };
    let per = rng.range(8, 48) as f64 + rng.f64();
    let f0 = (fs as f64 / per) as f32;
    let f1 = gen_freq(rng, fs, false);
    let p1 = gen_phase(rng, false);
    let start = rng.f64() as f32;
    let len = (per * 1.5) as u32 + 2;
    for pos in 0..=len {
        for k in 0..6u32 {
            let mut t = sink.begin(Cfg { fs });
            t.ctx.probe(P_SWEEP_TRACES);
            t.push(Ev::SetFreq(f0.to_bits()));
            t.push(Ev::SetPhase(start.to_bits()));
            if pos > 0 {
                t.push(Ev::Tick(pos));
            }
            match k {
                0 => t.push(Ev::SetFreq(f1.to_bits())),
                1 => t.push(Ev::Reset),
                2 => t.push(Ev::SetPhase(p1.to_bits())),
                3 => t.push(Ev::Read(0o0123_4012 ^ pos)),
                4 => t.push(Ev::SetFreq(0.0f32.to_bits())),
                _ => {
                    t.push(Ev::SetFreq(f1.to_bits()));
                    t.push(Ev::SetFreq(f0.to_bits()));
                }
            }
            t.push(Ev::Tick(len - pos + 8));
            sink.end(t);
        }
    }
}

