#!/bin/sh
# Blind mixed round: for each change cN of module M, run all of the module's checks in scratch and print verdicts;
# the labels (labels.txt) are only compared afterwards.  usage: tools/blind.sh <module> <checks...>
M=$1; shift; P=${BLIND_PREFIX:-M}
for c in c1 c2 c3 c4; do
  [ -f /tmp/mut/${P}_$M/_mixed/$c.diff ] || continue
  cd /tmp/mut/${P}_$M && git checkout -q -- src && rm -rf tests && git apply _mixed/$c.diff || { echo "$M $c does not apply"; continue; }
  suite=$(CARGO_NET_OFFLINE=true cargo test --offline 2>&1 | grep "test result" | tr '\n' ' ' | grep -c "62 passed; 0 failed.*4 passed; 0 failed")
  res=$(/verif/tools/eval_scratch.sh /tmp/mut/${P}_$M quick "$@" | grep -v missed | cut -c1-200 | tr '\n' ';')
  echo "$M $c suite_ok=$suite alarms: ${res:-none}"
  git checkout -q -- src
done
