#!/usr/bin/env python3
"""Mechanical campaign: corrupt single entries of the three lookup tables (the kind of damage a regenerated or
hand-edited table gets) and see whether the quick tier notices.  Works in a scratch worktree, never in /repo.
usage: tools/lut_campaign.py <worktree>"""
import subprocess, sys, re, json, os
W = sys.argv[1]
F = os.path.join(W, 'src/lookup_tables.rs')
subprocess.run(['git', '-C', W, 'checkout', '-q', '--', 'src'], check=True)
orig = open(F).read().split('\n')
starts = {}
for i, l in enumerate(orig):
    m = re.match(r'pub const (\w+_TABLE)', l)
    if m: starts[m.group(1)] = i + 1      # first entry line
plan = []
for idx in (1, 200, 255, 256, 300, 511, 512, 700, 1000, 1023):
    plan.append(('SINE_TABLE', idx, 0.03, ['C10', 'C12']))      # beyond the 0.0125 tolerance of C10
    plan.append(('SINE_TABLE', idx, -0.004, ['C10', 'C12']))    # inside it: only the slope bound of C12 can see it
for t in ('ADSR_ATTACK_TABLE', 'ADSR_DECAY_TABLE'):
    for idx in (2, 100, 400, 800, 1000, 1022):
        plan.append((t, idx, 0.01, ['C01', 'C03']))             # beyond the 0.5 % fidelity of C01
        plan.append((t, idx, -0.0015, ['C01', 'C03']))          # inside it: monotonicity / slope only
res = []
for (t, idx, d, checks) in plan:
    lines = list(orig)
    ln = starts[t] + idx
    old = float(lines[ln].strip().rstrip(','))
    lines[ln] = '    %r,' % (old + d)
    open(F, 'w').write('\n'.join(lines))
    tr = subprocess.run('cd %s && CARGO_NET_OFFLINE=true cargo test --offline 2>&1 | grep "test result"' % W, shell=True, capture_output=True, text=True).stdout
    suite_ok = ('62 passed; 0 failed' in tr) and ('4 passed; 0 failed' in tr)
    out = subprocess.run([os.path.join(os.path.dirname(__file__), 'eval_scratch.sh'), W, 'quick'] + checks, capture_output=True, text=True).stdout
    det = [l.split()[0] for l in out.split('\n') if 'DETECTED' in l]
    r = dict(table=t, index=idx, delta=d, old=old, suite_passes=suite_ok, detected_by=det, detail=[l[:160] for l in out.split('\n') if 'DETECTED' in l])
    res.append(r); print(json.dumps(r), flush=True)
open(F, 'w').write('\n'.join(orig))
subprocess.run(['git', '-C', W, 'checkout', '-q', '--', 'src'], check=True)
json.dump(res, open(os.path.join(os.path.dirname(__file__), '..', 'seeded', 'LUT-CAMPAIGN.json'), 'w'), indent=1)
n = sum(1 for r in res if r['suite_passes']); k = sum(1 for r in res if r['suite_passes'] and r['detected_by'])
print('suite-passing corruptions: %d, detected: %d' % (n, k))
