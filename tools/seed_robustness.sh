#!/bin/sh
# How seed-dependent is the detection of the seeded changes?  Runs every seeded change's target check at the quick
# tier under another master seed, in a scratch worktree (does not touch /repo).
# usage: tools/seed_robustness.sh <worktree of /repo> <seed> [prefix]
W=$(cd "$1" && pwd); SEED=$2; PFX=${3:-}
HERE=$(cd "$(dirname "$0")/.." && pwd)
S=$(mktemp -d /tmp/evalsim.XXXXXX)
trap 'rm -rf "$S"; cd "$W" && git checkout -q -- src' EXIT INT TERM
mkdir -p "$S/sim" "$S/replays" "$S/evidence"
cp -r "$HERE/sim/src" "$HERE/sim/Cargo.lock" "$HERE/sim/.cargo" "$S/sim/"
sed "s#path = \"/repo\"#path = \"$W\"#" "$HERE/sim/Cargo.toml" > "$S/sim/Cargo.toml"
cp "$HERE/known_findings.json" "$S/"
det=0; tot=0
for d in "$HERE"/seeded/$PFX*/; do
  n=$(basename "$d"); p=${n%%-*}
  [ -f "$d/patch.diff" ] || continue
  cd "$W" && git checkout -q -- src && git apply "$d/patch.diff" 2>/dev/null || { echo "$n patch does not apply"; continue; }
  cd "$S/sim" && CARGO_NET_OFFLINE=true cargo build --release --offline >/dev/null 2>&1 || { echo "$n build failed"; continue; }
  VERIF_DIR="$S" VERIF_SEED=$SEED ./target/release/synthsim check $p --tier quick --no-evidence >/dev/null 2>&1; rc=$?
  tot=$((tot+1)); [ $rc -eq 1 ] && det=$((det+1))
  echo "$n seed=$SEED rc=$rc"
done
echo "seed $SEED: target check reported $det of $tot"
