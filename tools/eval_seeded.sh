#!/bin/sh
# usage: tools/eval_seeded.sh <seeded dir with patch.diff> [tier] [property ids...]
# Applies the seeded change to /repo, runs the given checks (default: the property in meta.json / dir name),
# and always restores /repo afterwards.  Prints one line per check: DETECTED / missed.
HERE=$(cd "$(dirname "$0")/.." && pwd)
D=$1; TIER=${2:-quick}; shift; shift 2>/dev/null
PROPS="$*"
[ -z "$PROPS" ] && PROPS=$(basename "$D" | cut -d- -f1)
if ! git -C /repo diff --quiet; then echo "refusing: /repo has uncommitted changes"; exit 2; fi
if ! git -C /repo apply "$D/patch.diff"; then echo "patch does not apply"; exit 2; fi
trap 'git -C /repo checkout -- . ' EXIT INT TERM
for p in $PROPS; do
  out=$("$HERE/bin/check" $p $TIER 2>&1); rc=$?
  if [ $rc -eq 1 ]; then echo "$(basename $D) $p $TIER DETECTED: $(echo "$out" | grep -m1 'detail:' | cut -c1-260)";
  elif [ $rc -eq 0 ]; then echo "$(basename $D) $p $TIER missed";
  else echo "$(basename $D) $p $TIER HARNESS-ERROR rc=$rc: $(echo "$out" | tail -3 | cut -c1-300)"; fi
done
