#!/usr/bin/env python3
"""Official evaluation of the seeded changes: for every /verif/seeded/<id>/patch.diff apply it to /repo
(git apply), run the registered check(s) (bin/check <Cxx> <tier>), undo it (git checkout -- .), and record the
outcome in seeded/<id>/meta.json and seeded/RESULTS.md.   usage: tools/eval_all_seeded.py [tier] [name-prefix]"""
import json, os, re, subprocess, sys, time
HERE = os.path.dirname(os.path.dirname(os.path.abspath(__file__)))
tier = sys.argv[1] if len(sys.argv) > 1 else "quick"
prefix = sys.argv[2] if len(sys.argv) > 2 else ""
EXTRA = {  # other checks whose statement the change also contradicts (run for the record)
    "C01": ["C03", "C02"], "C02": ["C03"], "C03": ["C01"], "C04": ["C06"], "C05": ["C04"], "C06": [], "C07": ["C09"], "C09": [],
    "C10": ["C12"], "C11": ["C17"], "C12": ["C10", "C11", "C17"], "C13": ["C14"], "C14": ["C13"], "C15": ["C16"], "C16": [],
    "C17": [], "C18": ["C06"], "C19": ["C09"],
}
def sh(*a, **k):
    return subprocess.run(a, capture_output=True, text=True, **k)
if sh("git", "-C", "/repo", "status", "--porcelain").stdout.strip():
    sys.exit("refusing: /repo has uncommitted changes")
rows = []
for name in sorted(os.listdir(os.path.join(HERE, "seeded"))):
    d = os.path.join(HERE, "seeded", name)
    if not os.path.isfile(os.path.join(d, "patch.diff")) or not name.startswith(prefix):
        continue
    prop = name.split("-")[0]
    r = sh("git", "-C", "/repo", "apply", os.path.join(d, "patch.diff"))
    if r.returncode != 0:
        print(name, "patch does not apply:", r.stderr); continue
    results = {}
    try:
        for p in [prop] + EXTRA.get(prop, []):
            t0 = time.time()
            r = sh(os.path.join(HERE, "bin", "check"), p, tier)
            out = r.stdout + r.stderr
            m = re.search(r"oracle=(\S+) run=(\d+) seed=(\d+) events (\d+) -> (\d+)", out)
            det = re.search(r"detail: (.*)", out)
            results[p] = {"tier": tier, "exit": r.returncode,
                          "verdict": {0: "missed", 1: "detected"}.get(r.returncode, "harness-error"),
                          "oracle": m.group(1) if m else None,
                          "minimised_events": int(m.group(5)) if m else None,
                          "original_events": int(m.group(4)) if m else None,
                          "detail": det.group(1)[:300] if det else None,
                          "wall_s": round(time.time() - t0, 1)}
    finally:
        sh("git", "-C", "/repo", "checkout", "--", ".")
    notes = open(os.path.join(d, "notes.txt")).read() if os.path.exists(os.path.join(d, "notes.txt")) else ""
    meta_path = os.path.join(d, "meta.json")
    meta = json.load(open(meta_path)) if os.path.exists(meta_path) else {}
    meta.update({
        "id": name, "breaks_property": prop,
        "origin": "fresh sub-agent given only the property text and a scratch worktree of /repo (nothing from /verif)",
        "needs_to_manifest": notes.strip(),
        "confirmed_in_scratch_worktree": "tools/confirm_mutant.sh: patch applies to a clean checkout; cargo test --offline: 62 unit tests + 4 doctests pass with the change; demo.rs (as tests/demo.rs) fails with the change and passes without it",
    })
    meta.setdefault("evaluations", {})
    meta["evaluations"][tier] = {"how": "git -C /repo apply patch.diff; bin/check <Cxx> %s; git -C /repo checkout -- ." % tier, "results": results}
    json.dump(meta, open(meta_path, "w"), indent=1)
    row = [name] + ["%s:%s%s" % (p, v["verdict"], (" (" + v["oracle"] + ", %d events)" % v["minimised_events"]) if v["oracle"] else "") for p, v in results.items()]
    print(" | ".join(row), flush=True)
    rows.append(row)
