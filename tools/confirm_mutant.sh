#!/bin/sh
# usage: tools/confirm_mutant.sh <worktree> <mN> <seeded-name>
# Confirms, in the scratch worktree, that the seeded change (a) applies to a clean checkout, (b) still passes the
# complete existing test suite, (c) makes its demonstration fail, and that (d) the demonstration passes without it.
# Then stores patch.diff, demo.rs and a meta.json skeleton in /verif/seeded/<seeded-name>/.
HERE=$(cd "$(dirname "$0")/.." && pwd)
W=$1; M=$2; NAME=$3
cd "$W" || exit 2
export CARGO_NET_OFFLINE=true
git checkout -q -- src; rm -rf tests
git apply --check _mutant/$M.diff || { echo "$NAME: patch does not apply"; exit 1; }
git apply _mutant/$M.diff
suite=$(cargo test --offline 2>&1 | grep "test result" | tr '\n' ' ')
echo "$suite" | grep -q "62 passed; 0 failed" && echo "$suite" | grep -q "4 passed; 0 failed" || { echo "$NAME: suite does not pass with the change: $suite"; git checkout -q -- src; exit 1; }
mkdir -p tests; cp _mutant/${M}_demo.rs tests/demo.rs
with=$(cargo test --offline --test demo 2>&1 | grep "test result" | tr '\n' ' ')
git checkout -q -- src
without=$(cargo test --offline --test demo 2>&1 | grep "test result" | tr '\n' ' ')
rm -rf tests
echo "$with" | grep -q "FAILED" || { echo "$NAME: demo does not fail with the change: $with"; exit 1; }
echo "$without" | grep -q "ok\." && ! echo "$without" | grep -q FAILED || { echo "$NAME: demo does not pass without the change: $without"; exit 1; }
D="$HERE/seeded/$NAME"; mkdir -p "$D"
cp _mutant/$M.diff "$D/patch.diff"; cp _mutant/${M}_demo.rs "$D/demo.rs"; cp _mutant/$M.txt "$D/notes.txt"
echo "$NAME: confirmed | suite: $suite | demo with change: $with | demo without: $without"
