#!/usr/bin/env python3
"""Writes /verif/MANIFEST.json from one table, so that the manifest stays consistent with the checks."""
import json, os, subprocess
HERE = os.path.dirname(os.path.dirname(os.path.abspath(__file__)))

ENGINES = {
    "adsr": ("sim/src/adsr.rs", ["C01", "C02", "C03", "C17"]),
    "midi": ("sim/src/midi.rs", ["C04", "C05", "C06", "C18", "C17"]),
    "quant": ("sim/src/quant.rs", ["C07", "C09", "C19", "C17"]),
    "lfo": ("sim/src/lfo.rs", ["C10", "C11", "C12", "C17"]),
    "glide": ("sim/src/glide.rs", ["C13", "C14", "C17"]),
    "ribbon": ("sim/src/ribbon.rs", ["C15", "C16", "C17"]),
}

SIM = "deterministic simulation with fault injection: seeded schedule/fault search over the real %s driven by simulated actors, %s"
CHECKS = {
 "C01": ("adsr", "5.1", SIM % ("Adsr", "per-tick range/monotonicity/plateau/curve-fidelity oracles following the observed phase"),
         "Seeded search (160k runs quick, 3M thorough, incl. one-fault-per-tick-offset sweeps, unobserved stretches and a 2^32-tick marathon in the thorough tier) over gate/tick/set_input interleavings, sample rates and times; every tick of every run is checked against the documented RC curve stretched between the latched start level and the target. Sampling, not proof; deviations inside the 0.5% fidelity tolerance are invisible."),
 "C02": ("adsr", "5.1", SIM % ("Adsr", "refinement of a phase state machine with an ideal-progress window per timed phase"),
         "Every observed transition is validated against the statement's relation and every timed phase against the never-early / late-only-by-counter-resolution window, including times changed in mid-phase and phases shorter than a tick."),
 "C03": ("adsr", "5.1", SIM % ("Adsr", "adjacent-tick step bound (steepest slope x phase fraction + sustain change)"),
         "Adjacent-tick differences are bounded at every tick of every run, with slow phases (up to 4M ticks) in every tier so that a staircase or a re-trigger jump is orders of magnitude above the bound."),
 "C04": ("midi", "5.2", SIM % ("MonoMidiReceiver", "reference voice model compared after every byte, <=32-outstanding precondition tracked"),
         "Seeded press/release/All-Notes-Off histories with mode changes at any time on all listened channels; gate, note and velocity compared with a model written from the statement after every message."),
 "C05": ("midi", "5.2", SIM % ("MonoMidiReceiver", "edge-latch model compared at every poll under arbitrary message/poll interleavings"),
         "Polls are scheduled at any position and multiplicity between messages; every poll result is compared with the latch model and the edge=>level implications."),
 "C06": ("midi", "5.2", "deterministic simulation with fault injection: seeded streams through a faulty wire plus single-fault sweeps (every byte boundary x every fault kind), independent MIDI-1.0 decoder and a clean-twin receiver as oracles",
         "Every eighth run enumerates, for a seeded 1-4 message stream, one injected fault of every kind at every byte boundary (real-time bytes, status aborts, system common/exclusive, stray data, drop, duplicate, foreign-channel messages); the other runs are seeded multi-fault streams. All getters are compared after every delivered byte."),
 "C07": ("quant", "5.3", SIM % ("Quantizer", "scale-mask model; pitch class of every conversion checked against the scale at the time of the call"),
         "Seeded convert/allow/forbid/restart histories in all octaves incl. edit-between-equal-inputs; the mask model applies the documented forbid rule and is compared with is_allowed() after every edit."),
 "C09": ("quant", "5.3", SIM % ("Quantizer", "window rule + fresh restarted twin for the memoryless case + ramp/noise scenario oracles"),
         "Inside the widened bucket of a still-allowed previous note the note must not change; otherwise it must equal what a fresh real quantizer with the same scale reports. Inputs within 10 uV of a window edge are counted, not asserted."),
 "C10": ("lfo", "5.4", SIM % ("Lfo", "closed-form waveform invariant at every phase reached, phase read back exactly from the up-saw"),
         "State invariant over the phases that tick/set_frequency/set_phase/reset histories reach; thorough tier adds full-cycle runs at increment 1-3 and reports the measured number of distinct 256-count phase buckets visited."),
 "C11": ("lfo", "5.4", SIM % ("Lfo", "per-tick advance window modulo one cycle, constancy between set_frequency calls, reset/set_phase postconditions"),
         "Integer phase model with the statement's rounding window; exact-congruent negative set_phase pairs are generated to test 'depends only on p modulo 1'."),
 "C12": ("lfo", "5.4", SIM % ("Lfo", "adjacent-tick sine/triangle step bounds incl. the cycle wrap"),
         "Slow increments (1..64) are started shortly before the wrap and before table-cell boundaries in every tier; bound 2*pi*1.002*step+2ulp for the sine, 4*step for the triangle."),
 "C13": ("glide", "5.5", SIM % ("GlideProcessor", "input-hull invariant, sign-stable monotone approach, bounded settling after 3t+16 samples"),
         "Tolerance = 8*2^-24*max|x|/(1-p) as derived in DESIGN.md; set_time at any sample index incl. switching to <2 samples while far from the target."),
 "C14": ("glide", "5.5", SIM % ("GlideProcessor", "step-response landmarks over the set of times that may be in effect + lock-step twins for the 0.05 s rule and the 10 s ceiling"),
         "Landmarks (40-55% around t/10, >=99.5% from t on) after settled holds for t*fs>=100, evaluated for every time that may be in effect (a request inside the 0.05 s band may be ignored or honoured; one outside must be honoured); fastest response must have covered 99.5% within 8 samples; twins receive exactly the calls the rule obliges to honour / min(t,10) and must match up to the f32 resolution of the filter until the first in-band request of a trace."),
 "C15": ("ribbon", "5.6", SIM % ("RibbonController<N>", "run-length press model and edge-latch model, polls anywhere, single-out-of-range-sample sweeps"),
         "Capture length is measured on a fresh controller and bounded by the statement; pressing must equal (unbroken run >= capture length) after every sample for 22 sample rates / capacities; the edge getters may behave as a flag or as a counter of unread changes."),
 "C16": ("ribbon", "5.6", SIM % ("RibbonController<N>", "f64 windowed-mean reference + perturbation twins (fresh-press, newest-samples, raised-sample) compared up to summation rounding"),
         "Value compared with the corrected f64 mean of the capture window (tolerance derived from f32 summation of the window) and its min/max; twins show independence from earlier presses and from the excluded newest samples, and monotonicity."),
 "C17": ("all six", "5.7", "deterministic simulation with fault injection: chaos profile of all six engines in an overflow-checks + debug-assertions build, panic capture per event, hang watchdog, bounded-liveness oracle for envelopes",
         "Legal extremes of every argument in arbitrary call order; a panic inside a call into the code under test is the violation (replayable trace), a hang is caught by a 60 s watchdog, envelope phases must end within 2.5x the counter range."),
 "C18": ("midi", "5.2", SIM % ("MonoMidiReceiver", "controller routing model per message + recorded-history monotonicity/end-point checks (pitch bend: anchors, order against every value seen, one output per value)"),
         "All 128 controller numbers x values and pitch-bend values are drawn with a bias to routed numbers and their neighbours; evidence reports how many distinct (controller,value) pairs and bend values were delivered."),
 "C19": ("quant", "5.3", SIM % ("Quantizer", "per-conversion record invariants on both return paths"),
         "stairstep == note/12 (within 2 ulp, exact at the octaves); stairstep+fraction reproduces the input within 2 ulp; fraction ranges on the hysteresis path and on restarted chromatic quantizers. One open known finding (sub-5uV negative fraction) is reported as KNOWN-FINDING, anything else is a violation."),
}

NOT_APPLICABLE = [
 {"property_id": "C08", "reason": "pure function of (scale, input) on a quantizer with no history: no schedule, clock, fault or interleaving enters the statement; deciding it is input enumeration (4095 scales x microvolt grid), not simulation. Its sequence consequence (notes never decrease on a rising input) is checked under C09."},
 {"property_id": "C20", "reason": "pure function of one f32/u8 argument quantified over all bit patterns; the right tool is an exhaustive sweep or a proof, not this technique. Out-of-range parameters are still injected as a fault kind (envelope times and levels, whose clamping C02 itself states; scale note numbers, whose meaning the model takes from the crate's own conversion; channel arguments only in the no-panic profile), but C20 itself is not claimed and no C20 fact is assumed by another property's model."},
]

def main():
    head = subprocess.run(["git", "-C", "/repo", "log", "--format=%H %s"], capture_output=True, text=True).stdout.strip().splitlines()
    hook_commits = [l.split()[0] for l in head if "verif-hooks" in l]
    checks = []
    for pid in sorted(CHECKS):
        eng, ref, tech, text = CHECKS[pid]
        checks.append({
            "property_id": pid,
            "quick_cmd": "bin/check %s quick" % pid,
            "thorough_cmd": "bin/check %s thorough" % pid,
            "evidence_file": "/verif/evidence/%s.json" % pid,
            "replay_cmd_template": "bin/replay {path}",
            "engine": eng,
            "level_claimed": {
                "category": "fault_enumeration" if pid == "C06" else "exploration",
                "text": text,
                "design_ref": "DESIGN.md section " + ref,
            },
            "level_note": "Trusted: the simulator's scheduler/executor and the reference model or twin written from the property statement (DESIGN.md section 5), f32 determinism of the same binary on replay. Sampled, not exhaustive.",
            "technique": tech,
        })
    m = {
        "version": 1,
        "setup_cmd": "cd sim && CARGO_NET_OFFLINE=true cargo build --release --offline",
        "hooks": {
            "guard": "cargo feature verif-hooks (off by default)",
            "enable": "sim/Cargo.toml depends on synth-utils = { path = \"/repo\", features = [\"verif-hooks\"] }; every check runs cargo build --release --offline first, so it always uses /repo's current working tree",
            "baseline_off_cmd": "cd /repo && cargo test --offline",
            "source_commits": hook_commits,
            "add_only": True,
        },
        "engines": [{"name": n, "path": p, "serves_properties": sp, "kind_free_text": "seeded discrete-event simulation engine inside the synthsim binary (closed-loop generator + executor + oracles)"} for n, (p, sp) in ENGINES.items()],
        "checks": checks,
        "not_applicable": NOT_APPLICABLE,
        "notes": "One Rust binary (sim/) holds six simulation engines; bin/check rebuilds it against /repo and runs one property. Replay files are written to /verif/replays/, exemplar traces of repaired defects are kept in /verif/findings/, open and fixed findings are listed in /verif/known_findings.json. VERIF_SEED selects the master seed (default 20261004).",
    }
    with open(os.path.join(HERE, "MANIFEST.json"), "w") as f:
        json.dump(m, f, indent=1)
        f.write("\n")

if __name__ == "__main__":
    main()
