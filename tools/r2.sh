#!/bin/sh
# confirm + scratch-evaluate the round-2 mutants of one property: tools/r2.sh Cxx [other checks...]
P=$1; shift
for m in m1 m2 m3; do
  [ -f /tmp/mut/$P/_mutant/$m.diff ] || continue
  /verif/tools/confirm_mutant.sh /tmp/mut/$P $m $P-r2$m 2>&1 | cut -c1-70
  cd /tmp/mut/$P && git checkout -q -- src && git apply _mutant/$m.diff && /verif/tools/eval_scratch.sh /tmp/mut/$P quick $P "$@" | sed "s/^/   $P-r2$m /"; git checkout -q -- src
done
