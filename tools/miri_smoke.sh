#!/bin/sh
# Optional smoke run (not part of any claim): a few seeded runs of the engines whose code under test uses
# MaybeUninit-based containers (heapless Vec / HistoryBuffer) under the nightly interpreter, to look for
# undefined behaviour.  ~100x slower than native, so the watchdog is disabled.
HERE=$(cd "$(dirname "$0")/.." && pwd)
cd "$HERE/sim" || exit 2
export CARGO_TARGET_DIR=${CARGO_TARGET_DIR:-/tmp/interp_target} MIRIFLAGS="-Zmiri-disable-isolation" VERIF_WATCHDOG_SECS=0 VERIF_DIR="$HERE"
for spec in "C15 12" "C04 40" "C07 60" "C13 6"; do
  set -- $spec
  echo "== $1 runs=$2"
  cargo +nightly miri run --offline -- check $1 --runs $2 --workers 4 --no-evidence 2>&1 | grep -E "engine|^OK|VIOLATION|error|Undefined|HARNESS"
done
