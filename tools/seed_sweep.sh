#!/bin/sh
# False-alarm hygiene: run every quick check under several master seeds on the unchanged tree.
# usage: tools/seed_sweep.sh <first-seed> <last-seed>     (evidence files are left as the last run wrote them)
HERE=$(cd "$(dirname "$0")/.." && pwd)
export VERIF_DIR="$HERE"
cd "$HERE/sim" && CARGO_NET_OFFLINE=true cargo build --release --offline >/dev/null 2>&1 || { echo "build failed"; exit 2; }
bad=0
for seed in $(seq $1 $2); do
  for p in C01 C02 C03 C04 C05 C06 C07 C09 C10 C11 C12 C13 C14 C15 C16 C17 C18 C19; do
    out=$(./target/release/synthsim check $p --tier quick --seed $seed --no-evidence 2>&1); rc=$?
    if [ $rc -ne 0 ]; then bad=1; echo "seed $seed $p rc=$rc"; echo "$out" | grep -E "violation:|detail|VIOLATION|HARNESS" | head -5; fi
  done
  echo "seed $seed done"
done
exit $bad
