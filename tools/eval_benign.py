#!/usr/bin/env python3
"""False-alarm regression: every /verif/benign/<id>/patch.diff is a change that keeps all properties true
(written by a sub-agent that saw only the property texts; see notes.txt for its argument).  Each is applied to
/repo, the checks of its module are run at the given tier, and it is undone.  Every check must exit 0.
usage: tools/eval_benign.py [tier] [prefix]"""
import json, os, subprocess, sys
HERE = os.path.dirname(os.path.dirname(os.path.abspath(__file__)))
tier = sys.argv[1] if len(sys.argv) > 1 else "quick"
prefix = sys.argv[2] if len(sys.argv) > 2 else ""
CHECKS = {"adsr": ["C01", "C02", "C03", "C17", "C10", "C11", "C12"], "lfo": ["C10", "C11", "C12", "C17"], "midi": ["C04", "C05", "C06", "C18", "C17"],
          "quant": ["C07", "C09", "C19", "C17"], "glide": ["C13", "C14", "C17"], "ribbon": ["C15", "C16", "C17"]}
def sh(*a): return subprocess.run(a, capture_output=True, text=True)
if sh("git", "-C", "/repo", "status", "--porcelain").stdout.strip():
    sys.exit("refusing: /repo has uncommitted changes")
bad = 0
res = {}
for name in sorted(os.listdir(os.path.join(HERE, "benign"))):
    d = os.path.join(HERE, "benign", name)
    if not os.path.isfile(os.path.join(d, "patch.diff")) or not name.startswith(prefix):
        continue
    if sh("git", "-C", "/repo", "apply", os.path.join(d, "patch.diff")).returncode != 0:
        print(name, "patch does not apply"); bad += 1; continue
    try:
        t = sh("sh", "-c", "cd /repo && cargo test --offline 2>&1 | grep 'test result' | tr '\\n' ' '").stdout
        alarms = []
        for p in CHECKS[name.split("-")[0]]:
            r = sh(os.path.join(HERE, "bin", "check"), p, tier)
            if r.returncode != 0:
                alarms.append(p + ": " + " ".join(l.strip() for l in (r.stdout + r.stderr).splitlines() if "detail" in l or "HARNESS" in l)[:300])
    finally:
        sh("git", "-C", "/repo", "checkout", "--", ".")
    ok = "62 passed; 0 failed" in t and "4 passed; 0 failed" in t
    res[name] = {"suite_passes": ok, "tier": tier, "false_alarms": alarms}
    print(name, "suite ok" if ok else "SUITE FAILS", "silent" if not alarms else "FALSE ALARM " + "; ".join(alarms), flush=True)
    bad += len(alarms)
out = os.path.join(HERE, "benign", "RESULTS-%s.json" % tier)
if prefix and os.path.exists(out):   # a partial run updates the stored results instead of replacing them
    allres = json.load(open(out)); allres.update(res); res = allres
json.dump(res, open(out, "w"), indent=1, sort_keys=True)
sys.exit(1 if bad else 0)
