#!/bin/sh
# confirm + scratch-evaluate the mutants a sub-agent left in /tmp/mut/<Cxx>/_mutant: tools/round.sh <tag> <Cxx> [other checks...]
TAG=$1; P=$2; shift 2
for m in m1 m2 m3; do
  [ -f /tmp/mut/$P/_mutant/$m.diff ] || continue
  /verif/tools/confirm_mutant.sh /tmp/mut/$P $m $P-$TAG$m 2>&1 | cut -c1-90
  cd /tmp/mut/$P && git checkout -q -- src && git apply _mutant/$m.diff && /verif/tools/eval_scratch.sh /tmp/mut/$P quick $P "$@" | sed "s/^/   $P-$TAG$m /"; git checkout -q -- src
done
