#!/bin/sh
# Development helper: run checks against a scratch copy of the repository (e.g. a worktree with a seeded
# change applied) without touching /repo.  usage: tools/eval_scratch.sh <repo-dir> <tier> <Cxx>...
# Builds a throw-away copy of the simulator under /tmp that points at <repo-dir>; removed afterwards.
HERE=$(cd "$(dirname "$0")/.." && pwd)
R=$(cd "$1" && pwd); TIER=$2; shift 2
W=$(mktemp -d /tmp/evalsim.XXXXXX)
trap 'rm -rf "$W"' EXIT INT TERM
mkdir -p "$W/sim" "$W/evidence" "$W/replays"
cp -r "$HERE/sim/src" "$HERE/sim/Cargo.lock" "$HERE/sim/.cargo" "$W/sim/"
sed "s#path = \"/repo\"#path = \"$R\"#" "$HERE/sim/Cargo.toml" > "$W/sim/Cargo.toml"
cp "$HERE/known_findings.json" "$W/"
cd "$W/sim" && CARGO_NET_OFFLINE=true cargo build --release --offline >"$W/build.log" 2>&1 || { tail -20 "$W/build.log"; echo "BUILD FAILED"; exit 2; }
for p in "$@"; do
  out=$(VERIF_DIR="$W" ./target/release/synthsim check $p --tier $TIER 2>&1); rc=$?
  if [ $rc -eq 1 ]; then echo "$p $TIER DETECTED: $(echo "$out" | grep -m1 'oracle=' | sed 's/.*oracle=\([a-z_0-9]*\).*events \(.*\)(min.*/\1 [\2]/') $(echo "$out" | grep -m1 'detail:' | cut -c1-230)";
  elif [ $rc -eq 0 ]; then echo "$p $TIER missed";
  else echo "$p $TIER HARNESS-ERROR rc=$rc: $(echo "$out" | tail -3 | cut -c1-300)"; fi
done
