#!/usr/bin/env python3
"""Writes /verif/seeded/RESULTS.md from the meta.json files."""
import json, glob, os
HERE = os.path.dirname(os.path.dirname(os.path.abspath(__file__)))
rows = []
tot = det = 0
for f in sorted(glob.glob(os.path.join(HERE, "seeded", "*", "meta.json"))):
    m = json.load(open(f))
    first = m["needs_to_manifest"].splitlines()[0].strip()
    cells = []
    for tier, ev in sorted(m.get("evaluations", {}).items()):
        for p, v in ev["results"].items():
            c = "%s %s: **%s**" % (p, tier, v["verdict"])
            if v.get("oracle"):
                c += " (`%s`, %d→%d events)" % (v["oracle"], v["original_events"], v["minimised_events"])
            cells.append(c)
        if tier == "quick":
            tot += 1
            det += 1 if ev["results"][m["breaks_property"]]["verdict"] == "detected" else 0
    note = m.get("remark", "")
    rows.append("| `%s` | %s | %s | %s |" % (m["id"], first.replace("|", "/")[:160], "<br>".join(cells), note))
out = ["# Seeded changes: which check catches which",
       "",
       "Each row is one change produced by a fresh sub-agent that saw only the property text and a scratch worktree.",
       "`patch.diff`, `demo.rs` (fails with the change, passes without), `notes.txt` and `meta.json` are in the row's directory.",
       "Evaluation = `git -C /repo apply patch.diff; bin/check <Cxx> <tier>; git -C /repo checkout -- .` (tools/eval_all_seeded.py).",
       "",
       "Target check detects at quick tier: **%d of %d**." % (det, tot),
       "",
       "| id | change (first line of the author's note) | checks run | remark |", "|---|---|---|---|"] + rows
open(os.path.join(HERE, "seeded", "RESULTS.md"), "w").write("\n".join(out) + "\n")
print("target detected %d of %d" % (det, tot))
