#!/bin/sh
# Determinism self-check: for every engine/profile, the digest over (per-trace content hash, oracle
# evaluations, verdict) must be identical across worker counts, repetitions and fresh processes.
# usage: tools/selfcheck.sh [runs-per-batch]
HERE=$(cd "$(dirname "$0")/.." && pwd)
RUNS=${1:-2000}
BIN="$HERE/sim/target/release/synthsim"
export VERIF_DIR="$HERE"
bad=0
for p in C01 C04 C05 C06 C18 C07 C09 C19 C10 C13 C15 C17; do
  ref=""
  for w in 1 5 16; do
    for rep in 1 2; do
      for seed in 20261004 7; do
        d=$("$BIN" digest $p --runs $RUNS --workers $w --seed $seed | tr '\n' ' ')
        key="$seed"
        eval "prev=\${ref_$seed:-}"
        if [ -z "$prev" ]; then eval "ref_$seed=\"\$d\""; elif [ "$prev" != "$d" ]; then echo "NONDETERMINISTIC $p workers=$w rep=$rep seed=$seed"; echo "  $prev"; echo "  $d"; bad=1; fi
      done
    done
  done
  eval "echo \"$p ok: \${ref_20261004}\"" | cut -c1-220
  unset ref_20261004 ref_7
done
exit $bad
